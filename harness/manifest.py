"""Regenerates /verif/MANIFEST.json from the table below (python -m harness.manifest)."""
import json
import os

VERIF = os.path.dirname(os.path.dirname(os.path.abspath(__file__)))

BASELINE_OFF = ('cd /repo && env -u GOOGLE_MATCHED_MARKETS_VERIF /venv/bin/python -m pytest -ra -q -p no:cacheprovider '
                '--timeout=900 --continue-on-collection-errors')

TRUST = ('Trusted: TLC/SANY/CommunityModules, the JVM, CPython, the projection code in /verif/harness. '
         'Bounds are the ones stated; beyond them the claim rests on the small-scope hypothesis.')

# id -> (technique, level text, level note, design_ref)
CLAIMED = {
    'C20': ('TLA+ spec DayWindows.tla: TLC enumerates all entry lists and checks pipeline-refines-contract; '
            'every enumerated case replayed into the real functions',
            'Exhaustive within bounds: every list of <=3 entries over days 0..M / ranges / 10 malformed kinds, and every list of <=3 proper ranges on a longer calendar (0..8, thorough 0..9: bridging ranges), is model-checked '
            '(implementation-shaped parse/expand pipeline refines the declarative union) and replayed into '
            'find_days_to_exclude + expand_time_windows on calendar bases straddling leap/year/month ends.',
            'Calendar rendering via datetime.date; only the listed malformed kinds are explored. ' + TRUST,
            'DESIGN.md section 4 C20'),
}

CLAIMED['C14'] = (
    'TLA+ spec HeapDict.tla model-checked (TopK, OutOK, ReadOnly); TopK for unbounded histories as an inductive invariant '
    '(HeapDictInd.tla, Apalache); TLC-enumerated push histories replayed into the real HeapDict; random runs of the real HeapDict '
    'trace-validated by HeapDictTrace.tla; search result lists judged by MMTrace.tla',
    'Container: exhaustive over all push sequences within bounds (2 keys, 3 values x 2 tags, cap 0..3, length <= 4/5) at design '
    'level, every enumerated history replayed, plus event-by-event trace validation of long random runs with ties and '
    'str/int/float keys. Searches: cap and best-first order judged on every recorded result list.',
    'heapq modelled by its contract; tie-breaks among equal values left open. ' + TRUST,
    'DESIGN.md section 4 C14')
CLAIMED['C08'] = (
    'TLA+ spec DiagCache.tla (cache state machine over series versions): complete state graph checked for NoStale/ServedFresh; '
    'TLC-enumerated and TLC-simulated behaviours replayed into real TBRMMDiagnostics objects, all quantities compared with a fresh object after every step',
    'Complete reachable graph of the cache model (no depth bound); all call histories to depth 3/4 and thousands of simulated '
    'histories of depth 12-15 replayed, observing all public quantities off a deep copy after every step; the pre-repair '
    'model variant is re-checked to still produce the stale-verdict counterexample.',
    'One series library (2 treatment x 3 control versions, 40 points) per seed; exact value comparison. ' + TRUST,
    'DESIGN.md section 4 C08')

_MM = ('MMTrace.tla (contract over MMDefs.tla) batch-validates traces recorded from the real searches (fresh objects, shared data '
       'and shared eligibility objects, data objects used before, reconfigured searchers (call-time fields re-assigned after use), earlier runs and returned sets the caller wrote over, decoy interference, post-search perturbation of caller-owned objects; '
       'panels with missing / NaN / negative / zero-total geos, other response units, long test periods); numeric facts from the independent oracle; '
       'design-level models MMImplX/MMImplG checked by TLC; hook events of both loops replayed against those models '
       '(MMStepTrace / MMStepTraceG, drift notes)')
_MMNOTE = ('Oracle (numpy/scipy, never imports the library) supplies ranks of score tuples, budget verdicts, optimistic budget '
           'classes, impact order; scipy t/F quantiles trusted; float thresholds judged only in generic position (margin 1e-9); '
           'design space = designs over the admitted geos. ' + TRUST)
CLAIMED['C01'] = (_MM, 'Every design returned by either search on every generated instance (1-6 geos, all seven eligibility classes + '
                  'absent geos, all constraint subsets, n_geos_max) is judged Legal by TLC against the eligibility table given to the driver.',
                  _MMNOTE, 'DESIGN.md section 4 C01')
CLAIMED['C02'] = (_MM, 'Every returned design is judged against each specified constraint by exact integer cross-multiplication in TLA+ '
                  '(sizes, geo ratio incl. bounds, volume ratio, either share reading) and the oracle budget verdict.',
                  _MMNOTE, 'DESIGN.md section 4 C02')
CLAIMED['C03'] = (_MM, 'For every instance TLC computes the obligation set (feasible under both share readings, not omittable by the '
                  'stated budget licence) by brute force over all designs on the admitted geos and requires distinct results, '
                  'min(k, |obligations|) of them, and nothing strictly better omitted.', _MMNOTE, 'DESIGN.md section 4 C03')
CLAIMED['C04'] = (_MM, 'At every position of every result list the attached series, diagnostics and score must be those the oracle '
                  'recomputes from the raw panel for exactly the reported geo sets.', _MMNOTE, 'DESIGN.md section 4 C04')
CLAIMED['C09'] = (_MM, 'Both searches on degenerate / tiny / contradictory instances: any exception other than ValueError is a recorded '
                  'crash with file:line, and the contract has no such action.', _MMNOTE, 'DESIGN.md section 4 C09')
CLAIMED['C13'] = (_MM, 'Greedy results must lie in the feasible set over admitted geos computed by TLC, never rank above its optimum or above '
                  'the recorded exhaustive best, and be empty when nothing is feasible.', _MMNOTE, 'DESIGN.md section 4 C13')
CLAIMED['C16'] = ('TLA+ spec Eligibility.tla (validation as a sequence of checks refining the declarative Accept; seven classes from the row triple); '
                  'all tables <=3 rows x 8 triples, single defects and all ordered subsets enumerated by TLC and replayed into GeoEligibility',
                  'Exhaustive within bounds: accept/reject and all eleven assignment sets for every table, every ordered subset (incl. empty), '
                  'IDs and indices, four ID presentations, value columns in any order.', 'Only the listed structural defects are explored. ' + TRUST, 'DESIGN.md section 4 C16')
CLAIMED['C17'] = ('TLA+ spec Params.tla (sixteen per-field checks in code order refining the documented domain); boundary grid enumerated by TLC '
                  'and replayed into TBRMMDesignParameters with math.nextafter neighbours',
                  'Every (field, grid point) with others valid, every pair of faults in two fields, defaults and equality cases; success XOR '
                  'ValueError exactly as the spec says.', 'Equal-ended ranges and int-for-float are left open (either outcome); bool / numpy '
                  'scalars outside the grid. ' + TRUST, 'DESIGN.md section 4 C17')

CLAIMED['C15'] = ('TLA+ spec DataPanel.tla (Pivot/Means/Order/Shares/Reconcile/Restrict/SetGeoIndex/Aggregate pipeline refining the declarative contract; responses of either sign; the searcher\'s cut to the most recent dates); '
                  'frames, eligibility tables and geo-index orders enumerated/sampled inside TLA+ and replayed into TBRMMData under many presentations',
                  'All frames over <=3 geos x <=3 dates with values 0..2 (hash-sampled residue class per seed in quick, all in thorough), tables over '
                  'the seven row types in relation subset/equal/exceeding, all legal and illegal geo-index orders; rows, columns, cells, shares as '
                  'exact rationals, assignable set, reconciliation outcome, index assignments and every subset aggregate compared.',
                  'Tied means may come in any order; duplicate (geo,date) rows and tuple-typed geo indexes are outside the property. ' + TRUST,
                  'DESIGN.md section 4 C15')

CLAIMED['C11'] = ('TLA+ spec MMCount.tla: closed-form count = |generated pairs| = |declarative assignments| checked by TLC for all class-count '
                  'vectors; a hash-selected residue class replayed into count_max_designs() and the real generators; large panels against the '
                  'declarative count in unbounded integers; MMStepTrace.tla: designs evaluated by recorded searches are generated pairs, at most count many',
                  'Exhaustive at design level over all class-count vectors up to the bound x 180 size/ratio settings (three definitions '
                  'compared); thousands of those instances realised as eligibility matrices: the real count must equal TLC\'s and the real '
                  'generator listing must be that many distinct legal pairs.',
                  'Fixed panel (the count depends only on class counts); itertools.combinations modelled as all k-subsets. ' + TRUST,
                  'DESIGN.md section 4 C11')
CLAIMED['C19'] = ('TLA+ specs Screening.tla (fit() pipeline as a state machine with nondeterministic detectors, model-checked) and ScreeningTrace.tla '
                  '(batch trace validation of recorded fit() runs, one verdict with clause name per trace)',
                  'Design level: all detector answers over small frames keep ScreenedExact / AnalysisExact / CallerFrameUnchanged; binding: '
                  'hundreds (quick) to thousands (thorough) of real fits under shuffled rows, custom column names and labels, Categorical label columns, a second metric column, unbalanced panels (a group without rows on a date), judged in TLA+; '
                  'seeded design errors and corrupted trace fields are re-checked on every run.',
                  'Which geos are noisy / which dates are outliers is not specified (numeric); frames have date as a column; integer responses so '
                  'totals are exact. ' + TRUST, 'DESIGN.md section 4 C19')

CLAIMED['C10'] = ('TLA+ spec MMApi.tla generates call histories over the 12 public calls of one object and predicts each answer (fresh / last search / error); '
                  'histories replayed into real objects, answers, parameter object and input frame compared after every call; MMImplG ParamsUntouched at design level',
                  'All histories of length 3 on several instances (one per parameter shape, incl. must-include geo + n_geos_max + budget; half of the histories on a data object that was used before) plus TLC-simulated histories of length 8-10; every answer must equal the answer of the same '
                  'call made first on a fresh object; retrieval must return the last search\'s list; asdict(parameters) and the caller\'s frame must be '
                  'unchanged after every call. The pre-repair model variants still expose D2 / D3.',
                  'design_within_constraints() is not among the calls the property lists; exact comparison of projected answers. ' + TRUST,
                  'DESIGN.md section 4 C10')
CLAIMED['C12'] = ('TLA+ spec MMPresent.tla decides the memo invariant over presentations of one abstract instance (rows shuffled, dates shifted, int/str IDs, '
                  'renamings, power-of-two scaling of responses and budget) on results recorded from the real searches',
                  'Each abstract instance is run under 8-10 presentations; results are projected back (geo numbers, verdicts, rounded correlation, '
                  'value-class ids of impact-based quantities after undoing the scale) and must equal the first presentation\'s answer clause by clause.',
                  'Generic position and tie-free instances only (a tie-break is not a presentation dependence), plus twin-geo panels compared across ID dtype and row order only. ' + TRUST, 'DESIGN.md section 4 C12')

CLAIMED['C06'] = ('TLA+ spec TBRModel.tla (exact rational OLS / Kerman eq. 5 posterior; aggregate-fit-select-per-day pipeline refining the closed form; '
                  'design-side tbrfit identity) model-checked; hash-sampled enumerated cases replayed into TBR / TBRMMDiagnostics.tbrfit under six layouts and declared semantics (column names, group / period codes); the same contract evaluated in unbounded integers (compared with TLC on every emitted case) for pre-periods of 60-500 dates',
                  'All integer data sets of the enumerated shapes (n_pre 3..5, values 0..3, with/without cooldown) satisfy the refinement invariants; '
                  'sampled cases are rendered as frames (one geo per group, split totals, shuffled rows, unassigned geos / periods, both cooldown settings) '
                  'and df, loc, scale^2 per analysed day, summary identities for all level/tails/threshold/rescale combinations and the design-side fit '
                  'are compared with the rationals TLC printed.',
                  'scipy Student-t cdf/ppf trusted; known finding C06:one-tailed-level-le-half (tails=1, level<=0.5). ' + TRUST, 'DESIGN.md section 4 C06')
CLAIMED['C18'] = ('TLA+ spec TBRModel.tla (effect-series identities; exact monotonicity predicate of the posterior scale, TLC produces the non-monotone witness); '
                  'sampled cases replayed into TBRiROAS.estimate_pointwise_and_cumulative_effect',
                  'Where the exact scale sequence is non-decreasing the report must succeed and satisfy every identity (ordering on every date, counterfactual + '
                  'pointwise = observed, pre-period pointwise = residuals, last cumulative = posterior quantiles) for both metrics, both cost scenarios, levels '
                  'and tails; where it is not, the ValueError is the recorded finding and anything else is a violation.',
                  'scipy quantiles trusted; known findings C18:scale-not-monotone, C18:level-le-half. ' + TRUST, 'DESIGN.md section 4 C18')

CLAIMED['C07'] = ('TLA+ specs IROASModel.tla (scenario test, fixed / variable branches on top of TBRModel, fixed-cost identities and the cost/response scaling law) '
                  'and IROASHistory.tla (all call histories of summary(random_state) on one / fresh objects, memo invariant), model-checked; cases and histories replayed into TBRiROAS.summary',
                  'Fixed-cost: every report column compared with exact rationals for enumerated data sets, both cooldown settings, levels, tails, thresholds; '
                  'variable-cost: label, ordering, determinism over all 512 three-call histories, equivariance under power-of-two scaling of cost and response '
                  '(including 1/64, which exposes a careless order-of-magnitude test, and cost units of 2^36); scenario label decided exactly on integer costs and independent of the campaign spend; frames under declared column names / codes.',
                  'The statistical correctness of the simulated percentiles is not specified; scipy quantiles trusted. ' + TRUST, 'DESIGN.md section 4 C07')
CLAIMED['C05'] = ('TLA+ spec ImpactModel.tla: one operator PostScaleSq shown equal (exact rationals) to the analysis-side posterior variance, the day loop and the design-side tbrfit; '
                  'required impact with PLANTED rational quantiles checked for calibration, linear scaling, shift invariance and monotonicity in r^2; replayed into TBRMMDiagnostics and tbr.TBR',
                  'Quantiles are planted through scipy cdfs so that the transcendental part cancels: required_impact^2 must equal the rational TLC printed, and the '
                  'experiment the property describes must be estimated with estimate = RI, scale^2 = PostScaleSq, lower = q_p * scale; laws re-checked on random float series.',
                  'ppf(cdf(q)) = q for scipy t and F is trusted (verified to 1e-10 at run time); what is decided is that both code paths implement the same rational function. ' + TRUST,
                  'DESIGN.md section 4 C05')

PENDING_REASON = 'check not built yet in this round (planned, see DESIGN.md section 10); not claimed until it runs'


def build():
  props = [json.loads(l)['id'] for l in open(os.path.join(VERIF, 'properties.jsonl'))]
  checks = []
  for pid in props:
    if pid not in CLAIMED:
      continue
    tech, text, note, ref = CLAIMED[pid]
    checks.append({
        'property_id': pid,
        'quick_cmd': './check %s --tier quick' % pid,
        'thorough_cmd': './check %s --tier thorough' % pid,
        'evidence_file': '/verif/evidence/%s.json' % pid,
        'replay_cmd_template': './check %s --replay {path}' % pid,
        'engine': 'tlc',
        'level_claimed': {'category': 'model_checking', 'text': text, 'design_ref': ref},
        'level_note': note,
        'technique': tech,
    })
  na = [{'property_id': pid, 'reason': NOT_APPLICABLE.get(pid, PENDING_REASON)} for pid in props if pid not in CLAIMED]
  hooks_commits = HOOK_COMMITS
  m = {
      'version': 1,
      'setup_cmd': './setup.sh',
      'hooks': {
          'guard': 'GOOGLE_MATCHED_MARKETS_VERIF',
          'enable': 'environment variable GOOGLE_MATCHED_MARKETS_VERIF=1 (set by ./check); the package is imported from /repo\'s '
                    'working tree, nothing is built or installed',
          'baseline_off_cmd': BASELINE_OFF,
          'source_commits': hooks_commits,
          'add_only': True,
      },
      'engines': [{'name': 'tlc', 'path': '/verif/spec', 'serves_properties': [c['property_id'] for c in checks],
                   'kind_free_text': 'explicit TLA+ specifications checked by TLC 1.8; bound to the code by replaying '
                                     'TLC-enumerated behaviours into the implementation and by validating traces '
                                     'recorded from the implementation against the specification'}],
      'checks': checks,
      'not_applicable': na,
      'notes': 'One entry point ./check <ID>. Exit 0 held / 1 VIOLATION / 2 machinery failure. Known findings in '
               '/verif/known_findings.json. See DESIGN.md.',
  }
  with open(os.path.join(VERIF, 'MANIFEST.json'), 'w') as f:
    json.dump(m, f, indent=1)
  return m


NOT_APPLICABLE = {}
HOOK_COMMITS = ['d74490a']

if __name__ == '__main__':
  m = build()
  import jsonschema
  schema = json.load(open('/root/.vp/MANIFEST.schema.json'))
  jsonschema.validate(m, schema)
  print('MANIFEST.json written: %d checks, %d not_applicable' % (len(m['checks']), len(m['not_applicable'])))
