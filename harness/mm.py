"""Shared driver for the search properties (C01-C04, C09, C12, C13, search half of C14).

generate abstract instances -> oracle tables (harness/oracle.py, independent of the library) -> run the real searches on
fresh objects in worker processes -> project the results to the contract's vocabulary -> MMTrace.tla judges every
instance (parallel TLC processes, one verdict line per instance naming the failing clauses).
"""
import copy
import json
import math
import os
import random
import time
import traceback

import numpy as np

from harness import core
from harness import oracle
from harness import par as par_mod
from harness import tlc

CLASSES = ['ctx', 'cx', 'tx', 'ct', 'c', 't', 'x', 'absent']
CLASS_W = [0.48, 0.12, 0.12, 0.08, 0.05, 0.05, 0.04, 0.06]
TRIPLE = {'ctx': (1, 1, 1), 'cx': (1, 0, 1), 'tx': (0, 1, 1), 'ct': (1, 1, 0), 'c': (1, 0, 0), 't': (0, 1, 0),
          'x': (0, 0, 1)}
TOLS = [(1, 4), (1, 2), (1, 1), (1, 1), (2, 1), (2, 1), (3, 2), (3, 1), (3, 1), (1, 10), (3, 10)]
VTOLS = [(1, 10), (1, 4), (1, 2), (1, 1), (1, 1), (2, 1), (2, 1), (4, 1), (9, 1), (1, 20)]

TRACE_CFG = """SPECIFICATION Spec
"""
SEARCH_TIMEOUT_S = 150     # a search of <= 14 geos takes seconds; termination is part of C09


# ---------------------------------------------------------------------------------------------- instances
def gen_panel(rng, n, n_dates, mirror=False):
  base = np.cumsum(rng.normal(size=n_dates)) * rng.uniform(1.0, 4.0) + 60
  season = 8 * np.sin(np.arange(n_dates) * rng.uniform(0.3, 1.2))
  cells = {}
  scales = sorted((rng.uniform(0.6, 1.6) * (1.9 ** (i * min(1.0, 5.0 / n))) for i in range(n)), reverse=True)   # <= ~25x: TLC integers are 32-bit
  rng.shuffle(scales)
  for g in range(1, n + 1):
    kind = rng.choice(['follow', 'follow', 'follow', 'noisy', 'lagged'] + (['mirror'] * 2 if mirror else []))
    sc = scales[g - 1]
    if mirror and g <= 2:
      # geos 1 and 2: equally large, moving with / against the common signal
      kind = 'follow' if g == 1 else 'mirror'
      sc = max(scales) * 1.05
    if kind == 'follow':
      s = sc * (base + season) + rng.normal(size=n_dates) * sc * rng.uniform(0.3, 2.5)
    elif kind == 'mirror':
      # moves against the common signal: together with a 'follow' geo the disturbances cancel, so a group can be
      # much cheaper than each of its members (required budgets are not monotone in the group)
      s = sc * (120 - base - season) + rng.normal(size=n_dates) * sc * 0.4
    elif kind == 'lagged':
      s = sc * (np.roll(base, 1) + season) + rng.normal(size=n_dates) * sc
    else:
      s = sc * 60 + rng.normal(size=n_dates) * sc * 12
    s = np.maximum(np.round(s * 3), 1)
    for d in range(n_dates):
      cells[(g, d)] = int(s[d])
  return cells


def gen_instance(rng, iid, family='random', nmax_geos=6):
  """Abstract instance: panel cells, eligibility classes, parameter dict with rationals."""
  if family == 'tiny':
    n = rng.choice([1, 2, 2, 3])
  else:
    n = rng.choices([2, 3, 4, 5, 6], weights=[0.08, 0.3, 0.36, 0.2, 0.06])[0]
  if family == 'negshare':
    n = rng.choice([4, 4, 5, 5, 6])
  n = min(n, nmax_geos)
  n_dates = rng.randint(12, 26)
  n_test = rng.choice([1, 2, 2, 3, 3, 4, 4, 7])
  npm = rng.choice([90, n_dates, max(n_test + 3, n_dates - rng.randint(1, 5)), n_test + 3 + rng.randint(0, 4)])
  npm = max(npm, n_test + 3)
  if npm == 90 and iid % 3 == 0:
    npm = n_dates + 1 + (iid // 3) % max(1, n_dates - 2)      # a window somewhat longer than the panel
  if family == 'longtest':
    # long calendars with a test period of about a hundred time points (e.g. a quarter of daily data)
    n = rng.choice([2, 2, 3])
    n_dates = rng.randint(104, 135)
    n_test = rng.choice([t for t in (40, 96, 97, 98, 99, 100, 101, 120) if t + 3 <= n_dates])
    npm = max(rng.choice([n_dates, 200, n_test + 3 + rng.randint(0, 6)]), n_test + 3)
  nprng = np.random.RandomState(rng.randint(0, 2 ** 31 - 1))
  cells = gen_panel(nprng, n, n_dates, mirror=(family == 'cancel'))
  if rng.random() < 0.3:
    elig = ['ctx'] * n
    default_elig = rng.random() < 0.7
  else:
    elig = rng.choices(CLASSES, weights=CLASS_W, k=n)
    default_elig = False
  if family == 'constraints' and n >= 3 and rng.random() < 0.25:
    # many geos that must be in one of the two groups: forced control groups larger than admissible sizes
    elig = [rng.choice(['ct', 'ct', 'ctx', 'ctx', 'c', 'cx']) for _ in range(n)]
    default_elig = False
  if family == 'c13vol' and n >= 3:
    # a volume tolerance while a sizeable geo is not admitted to the search (exclude-only or not in the table)
    tot = sorted(range(1, n + 1), key=lambda g: -sum(v for (gg, _), v in cells.items() if gg == g))
    elig = [rng.choice(['ctx', 'ctx', 'ctx', 'cx', 'tx']) for _ in range(n)]
    elig[tot[rng.choice([0, 1])] - 1] = rng.choice(['x', 'absent'])
    default_elig = False
  if family == 'c13ratio' and n >= 4:
    # a geo-ratio tolerance together with a minimum control size of two (range or two control-fixed geos)
    elig = [rng.choice(['ctx', 'ctx', 'ctx', 'cx', 'tx']) for _ in range(n)]
    if rng.random() < 0.5:
      a, b = rng.sample(range(n), 2)
      elig[a] = elig[b] = 'c'
    default_elig = False
  if family == 'negshare':
    # a share cap while one treatable geo has a NEGATIVE share: an over-share group plus that geo is back in range
    elig = [rng.choice(['ctx', 'ctx', 'ctx', 'ctx', 'cx', 'tx']) for _ in range(n)]
    default_elig = False
  if family == 'truncate' and n >= 3:
    # n_geos_max binds and the geos that may not be excluded are the SMALL ones (lowest impact)
    tot = sorted(range(1, n + 1), key=lambda g: sum(v for (gg, _), v in cells.items() if gg == g))
    elig = [rng.choice(['ctx', 'ctx', 'cx', 'tx']) for _ in range(n)]
    elig[tot[0] - 1] = rng.choice(['c', 't', 'ct'])
    if n >= 4 and rng.random() < 0.5:
      elig[tot[1] - 1] = rng.choice(['c', 't', 'ct'])
    default_elig = False
  if family == 'fixedtrt':
    # geos fixed to treatment: the greedy walk starts from them, whatever their budget
    elig = [rng.choice(['ctx', 'ctx', 'cx', 'ctx', 'ct']) for _ in range(n)]
    elig[rng.randrange(n)] = 't'
    if n >= 4 and rng.random() < 0.4:
      elig[rng.randrange(n)] = 't'
    default_elig = False
  if family == 'cancel':
    # must-include treatment-side geos + a minimum treatment size of two + a budget cap between the pair and the singles
    elig = [rng.choice(['ct', 'ct', 't', 'ctx', 'ctx', 'cx']) for _ in range(n)]
    if n >= 3 and rng.random() < 0.6:
      elig[0] = 't'
      elig[1] = rng.choice(['t', 'ct'])
      elig[2] = rng.choice(['cx', 'ctx', 'c'])
    default_elig = False
  if family == 'degenerate':
    mode = rng.choice(['no_c', 'no_t', 'all_x', 'all_fixed', 'one_side'])
    if mode == 'no_c':
      elig = [rng.choice(['t', 'tx', 'x']) for _ in range(n)]
    elif mode == 'no_t':
      elig = [rng.choice(['c', 'cx', 'x']) for _ in range(n)]
    elif mode == 'all_x':
      elig = [rng.choice(['x', 'absent']) for _ in range(n)]
    elif mode == 'all_fixed':
      elig = [rng.choice(['c', 't', 'ct']) for _ in range(n)]
    else:
      elig = [rng.choice(['c', 'ctx']) for _ in range(n)]
    default_elig = False
  iroas = rng.choice([0.5, 1.0, 2.0, 3.0])
  if rng.random() < (0.2 if family in ('degenerate', 'tiny') else 0.04):
    iroas = rng.choice([0.0, 0])          # the documented domain is iroas >= 0
  p = {'n_test': n_test, 'iroas': iroas, 'n_pretest_max': npm,
       'n_designs': rng.choice([1, 1, 2, 3, 5, 50]),
       'sig_level': rng.choice([0.9, 0.9, 0.8]), 'power_level': rng.choice([0.8, 0.8, 0.9]),
       'low_levels': rng.random() < 0.1,
       'min_corr': rng.choice([0.8, 0.8, 0.9]), 'rho_max': rng.choice([0.995, 0.995, 0.95, 0.9]),
       'flevel': rng.choice([0.9, 0.9, 0.95])}
  if p.pop('low_levels'):
    # the documented domain of both levels is (0, 1): below one half the t quantile is negative
    p['sig_level'], p['power_level'] = rng.choice([(0.4, 0.8), (0.3, 0.9), (0.6, 0.3), (0.45, 0.7)])
  heavy = family in ('constraints', 'degenerate')
  pr = (lambda x: rng.random() < (min(0.9, 1.6 * x) if heavy else x))
  tr = cr = (0, 0)
  if pr(0.3):
    lo = min(rng.choice([1, 1, 1, 2, 2, 3]), n)
    tr = (lo, rng.randint(lo, max(lo, n + (1 if family == 'degenerate' else 0))))
  if pr(0.3):
    lo = min(rng.choice([1, 1, 1, 2, 2, 3]), n)
    cr = (lo, rng.randint(lo, max(lo, n)))
  if family == 'degenerate' and rng.random() < 0.3:
    tr = (n + 1, n + 3)
  gtol = rng.choice(TOLS) if pr(0.3) else (0, 0)
  vtol = rng.choice(VTOLS) if pr(0.22) else (0, 0)
  share = (0, 0, 0, 0)
  if pr(0.22):
    lo = rng.randint(1, 45) if rng.random() < 0.3 else rng.randint(1, 12)
    hi = rng.randint(lo + 5, 97) if rng.random() < 0.3 else rng.randint(45, 97)
    share = (lo, 100, hi, 100)
  nmax = rng.randint(max(2, n - 2), max(2, n)) if pr(0.15) else 0
  want_budget = pr(0.3)
  if family == 'cancel':
    tr = (2, max(2, min(3, n)))
    want_budget = True
    share = (0, 0, 0, 0)
    nmax = 0
  if family == 'c13vol':
    vtol = rng.choice([(1, 4), (1, 2), (1, 1), (1, 10)])
    share = (0, 0, 0, 0)
    want_budget = False
    nmax = 0
  if family == 'c13ratio' and n >= 4:
    gtol = rng.choice([(1, 2), (1, 1), (1, 4)])
    if 'c' not in elig:
      cr = (2, rng.randint(2, n))
    share = (0, 0, 0, 0)
    want_budget = False
  if family == 'negshare':
    share = (rng.choice([2, 5, 10]), 100, rng.choice([35, 45, 55, 65]), 100)
    vtol = (0, 0)
    want_budget = False
    nmax = 0
    tr = (0, 0) if rng.random() < 0.6 else (1, n - 1)
    p['n_designs'] = rng.choice([5, 50, 50])
  if family == 'truncate' and n >= 3:
    nmax = rng.randint(2, n - 1)
    share = (0, 0, 0, 0)
    want_budget = False
  if family == 'fixedtrt':
    want_budget = True
    share = (0, 0, 0, 0)
  if n >= 2 and rng.random() < (0.35 if (share[1] or vtol[1]) else 0.12):
    # records missing from the long frame (the canonical data object reads them as zero): a few scattered cells,
    # or a geo that starts reporting late; every date keeps at least one record
    if rng.random() < 0.5:
      g = rng.randint(1, n)
      for d in range(rng.randint(1, max(1, n_dates // 3))):
        if sum(1 for gg in range(1, n + 1) if (gg, d) in cells) > 1:
          cells.pop((g, d), None)
    else:
      for _ in range(rng.randint(1, 3)):
        g, d = rng.randint(1, n), rng.randint(0, n_dates - 1)
        if sum(1 for gg in range(1, n + 1) if (gg, d) in cells) > 1:
          cells.pop((g, d), None)
  if share[1] == 0 and vtol[1] == 0 and rng.random() < 0.12:
    # series whose level dwarfs their variation (level / spread ~ 1e4..1e5); only without share / volume constraints,
    # whose cross-multiplications would leave TLC's 32-bit integers
    for g in range(1, n + 1):
      off = int(150000 * (1 + 0.37 * g))
      for d in range(n_dates):
        if (g, d) in cells:
          cells[(g, d)] += off
  neg_vol = (family == 'c13vol' and iid % 3 == 1) or family == 'negshare'
  if n >= 2 and ((family in ('random', 'constraints', 'degenerate') and iid % 9 in (4, 7)) or neg_vol):
    # responses need not be positive: the smallest geo records net outflows (every value negated; any group with
    # another geo still has a positive total) or nets out to exactly zero (+a, -a, +b, -b, ...: share zero)
    tot = {g: sum(v for (gg, _), v in cells.items() if gg == g) for g in range(1, n + 1)}
    g0 = min(tot, key=lambda g: (tot[g], g))
    others = [tot[g] for g in tot if g != g0]
    if min(others) > 0 and tot[g0] < 0.9 * min(others):
      days = sorted(d for (gg, d) in cells if gg == g0)
      if iid % 9 == 4 or neg_vol:
        f = max(1.0, 0.85 * min(others) / max(tot[g0], 1))     # as large as the next geo allows
        for d in days:
          cells[(g0, d)] = -int(round(cells[(g0, d)] * f))
        if family == 'negshare':
          elig[g0 - 1] = rng.choice(['ctx', 'ctx', 'tx'])      # the negative geo may be treated
        if share[1] == 0 and vtol[1] == 0:
          # shares are where the sign matters: such a panel gets a volume tolerance or a share range
          if (iid // 9) % 2:
            vtol = [(1, 2), (1, 1), (1, 4)][iid % 3]
          else:
            share = (5, 100, [45, 60, 70][iid % 3], 100)
      elif len(days) >= 4:
        amp = random.Random(iid * 31 + 7)
        for j in range(0, len(days) - 1, 2):
          a = amp.randint(3, 60)
          cells[(g0, days[j])], cells[(g0, days[j + 1])] = a, -a
        if len(days) % 2:
          cells[(g0, days[-1])] = 0
        if family != 'degenerate' and not default_elig:
          elig[g0 - 1] = 'ctx'       # ... and the geo may be treated, so that it is tried as a group of its own
        if vtol[1] == 0:
          # a share of exactly zero matters where shares are divided: every such panel has a volume tolerance
          vtol = [(1, 2), (1, 1), (1, 4)][iid % 3]
  inst = {'id': iid, 'family': family, 'n': n, 'n_dates': n_dates, 'cells': cells, 'elig': elig,
          'default_elig': default_elig, 'par': p, 'tr': tr, 'cr': cr, 'gtol': gtol, 'vtol': vtol, 'share': share,
          'nmax': nmax, 'want_budget': want_budget, 'budget': None,
          'budget_mode': (rng.choice(['middle', 'high', 'below_all', 'above_all', 'low_half']) if family == 'fixedtrt' else
                          rng.choices(['low_half', 'middle', 'high', 'below_all', 'above_all', 'wide'],
                                      weights=[0.4, 0.15, 0.1, 0.05, 0.05, 0.25])[0]),
          'ids_kind': rng.choice(['int', 'str', 'str2']),
          'extra_elig_row': rng.choices([False, 'optional', 'ct', 'c', 't', 'nan_ct', 'nan_optional'],
                                        weights=[0.78, 0.10, 0.03, 0.02, 0.02, 0.03, 0.02])[0],
          'float_ints': rng.random() < 0.15,
          'shuffle_seed': rng.randint(0, 10 ** 9)}
  return inst


def oracle_par(inst):
  p = dict(inst['par'])
  p['budget_range'] = inst['budget']
  p['treatment_share_range'] = None if inst['share'][1] == 0 else (inst['share'][0] / inst['share'][1],
                                                                 inst['share'][2] / inst['share'][3])
  p['volume_ratio_tolerance'] = None if inst['vtol'][1] == 0 else inst['vtol'][0] / inst['vtol'][1]
  return p


def keep_in_tlc_range(inst):
  """TLC's integers are 32-bit and the share / volume clauses cross-multiply a group weight with the parts of a
  fraction: an instance whose panel total times the largest part would leave that range gets no share / volume
  constraint (decided from the instance alone, before anything is run)."""
  tot = int(sum(abs(v) for v in inst['cells'].values())) + len(inst['cells'])
  parts = [int(x) for x in tuple(inst['share']) + (inst['vtol'][0] + inst['vtol'][1],)]
  if any(parts) and tot * max(parts + [1]) >= 2 ** 31 - 1:
    inst['share'] = (0, 0, 0, 0)
    inst['vtol'] = (0, 0)
    inst['kept_in_tlc_range'] = True
  return inst


def attach_oracle(inst):
  """Chooses the budget range from the oracle's own required budgets, then builds the final tables."""
  keep_in_tlc_range(inst)
  geos = list(range(1, inst['n'] + 1))
  if inst['want_budget'] and inst['n'] >= 2 and inst['par']['iroas'] == 0:
    inst['budget'] = (0.0, 100.0)       # with iroas on its bound every required budget is infinite
  elif inst['want_budget'] and inst['n'] >= 2:
    t0 = oracle.build(geos, inst['cells'], oracle_par(inst), inst['n_dates'])
    budgets = sorted(d['ri'] / inst['par']['iroas'] for d in t0['diags'].values())
    q = lambda f: budgets[min(len(budgets) - 1, int(f * len(budgets)))]
    mode = inst['budget_mode']
    if inst['family'].startswith('cancel'):
      mode = 'cancel'
    rnd = lambda v: float('%.6g' % v)
    if mode == 'cancel':
      # cap between the cheapest pair and the singles it is made of (optimistic budgets at rho_max)
      iro = inst['par']['iroas']
      single = {g: t0['geo_impact'][g - 1] / iro for g in geos}
      term = t0['term']
      pairs = []
      for m, gs in oracle.subsets(inst['n']):
        if len(gs) == 2:
          ob = term * oracle.std2(t0['series'][m]) * math.sqrt(1 - inst['par']['rho_max'] ** 2) / iro
          if ob < 0.8 * min(single[gs[0]], single[gs[1]]):
            pairs.append((ob, min(single[gs[0]], single[gs[1]])))
      if pairs:
        ob, sg = min(pairs)
        b = (0.0, rnd(0.9 * sg))
      else:
        b = (0.0, rnd(q(0.5)))
    elif mode == 'low_half':
      b = (0.0, rnd(q(0.5)))
    elif mode == 'middle':
      b = (rnd(q(0.25)), rnd(q(0.75)))
    elif mode == 'high':
      b = (rnd(q(0.6)), rnd(budgets[-1] * 3))
    elif mode == 'below_all':
      b = (rnd(budgets[0] * 0.01), rnd(budgets[0] * 0.5))
    elif mode == 'above_all':
      b = (rnd(budgets[-1] * 20), rnd(budgets[-1] * 100))
    else:
      b = (0.0, rnd(budgets[-1] * 10))
    if 0 <= b[0] < b[1] < float('inf'):
      inst['budget'] = b
  inst['tab'] = oracle.build(geos, inst['cells'], oracle_par(inst), inst['n_dates'])
  return inst


# ---------------------------------------------------------------------------------------------- the real code
def geo_ids(inst):
  n = inst['n']
  if inst['ids_kind'] == 'int':
    r = random.Random(inst['shuffle_seed'])
    ids = r.sample(range(1, 40), n)
    return ids
  if inst['ids_kind'] == 'int_twin':
    # the first and the last geo are twins (identical series); as integers 9 < 10, as strings '10' < '9'
    return [9] + list(range(21, 21 + n - 2)) + [10]
  if inst['ids_kind'] == 'str':
    return ['geo_%s' % chr(ord('a') + (7 * g) % 26) + str(g) for g in range(1, n + 1)]
  return ['%d' % (100 - g) for g in range(1, n + 1)]


def build_objects(inst, variant=None):
  """Concrete pandas inputs for the abstract instance. variant: dict of presentation changes (C12)."""
  import pandas as pd
  from matched_markets.methodology import geoeligibility, tbrmmdata, tbrmmdesignparameters
  variant = variant or {}
  ids = variant.get('ids') or geo_ids(inst)
  scale = variant.get('scale', 1.0)
  day0 = pd.Timestamp('2020-02-20') + pd.Timedelta(days=variant.get('date_shift', 0))
  rows = []
  split = variant.get('split_records', 0)
  for k, ((g, d), v) in enumerate(sorted(inst['cells'].items())):
    if split and (k * 7 + split) % 5 == 0:
      # one cell delivered as two records whose mean is the cell value (the pivot averages repeated records)
      delta = float(1 + (k % 3))
      rows.append({'date': day0 + pd.Timedelta(days=d), 'geo': ids[g - 1], 'response': (float(v) - delta) * scale})
      rows.append({'date': day0 + pd.Timedelta(days=d), 'geo': ids[g - 1], 'response': (float(v) + delta) * scale})
      continue
    rows.append({'date': day0 + pd.Timedelta(days=d), 'geo': ids[g - 1], 'response': float(v) * scale})
  if not inst['default_elig'] and str(inst.get('extra_elig_row', '')).startswith('nan_'):
    # a geo that has rows in the frame but no response at all (all NaN): the canonical table has no row for it, so it
    # is not "in the data"
    ghost = 'not_in_data' if isinstance(ids[0], str) else 9999
    for d in range(inst['n_dates']):
      rows.append({'date': day0 + pd.Timedelta(days=d), 'geo': ghost, 'response': float('nan')})
  r = random.Random(inst['shuffle_seed'] + variant.get('shuffle', 0))
  r.shuffle(rows)
  if variant.get('date_major'):
    # delivered date by date (e.g. a concatenation of daily extracts), the geos in a different order on every date
    rows.sort(key=lambda row: row['date'])
  df = pd.DataFrame(rows)
  if 'keep' in variant:
    variant['keep']['df'] = df
  if variant.get('ids_as_str'):
    df['geo'] = df['geo'].astype(str)
  elig_obj = None
  if not inst['default_elig']:
    erows = []
    for g in range(1, inst['n'] + 1):
      cl = inst['elig'][g - 1]
      if cl == 'absent':
        continue
      c, t, x = TRIPLE[cl]
      erows.append({'geo': ids[g - 1], 'control': c, 'treatment': t, 'exclude': x})
    if inst['extra_elig_row']:
      # a row for a geo that is not in the data: optional rows are dropped by the data object; a row that forbids
      # exclusion must make the data object reject the table (then there is no search to judge)
      trip = {'optional': (1, 0, 1), True: (1, 0, 1), 'ct': (1, 1, 0), 'c': (1, 0, 0), 't': (0, 1, 0),
              'nan_ct': (1, 1, 0), 'nan_optional': (1, 1, 1)}[inst['extra_elig_row']]
      erows.append({'geo': 'not_in_data' if isinstance(ids[0], str) else 9999, 'control': trip[0], 'treatment': trip[1],
                    'exclude': trip[2]})
    r.shuffle(erows)
    if not erows:
      erows = [{'geo': 'not_in_data' if isinstance(ids[0], str) else 9999, 'control': 1, 'treatment': 1, 'exclude': 1}]
    edf = pd.DataFrame(erows)
    if variant.get('elig_geo_as_index'):
      edf = edf.set_index('geo')          # 'geo' can also be the index (GeoEligibility docstring)
    elig_obj = variant.get('elig_obj') or geoeligibility.GeoEligibility(edf)
    if 'keep' in variant:
      variant['keep']['elig'] = elig_obj
  p = inst['par']
  kw = dict(n_test=p['n_test'], iroas=p['iroas'], n_pretest_max=p['n_pretest_max'], n_designs=p['n_designs'],
            sig_level=p['sig_level'], power_level=p['power_level'], min_corr=p['min_corr'], rho_max=p['rho_max'],
            flevel=p['flevel'])
  if inst['tr'][1]:
    kw['treatment_geos_range'] = tuple(inst['tr'])
  if inst['cr'][1]:
    kw['control_geos_range'] = tuple(inst['cr'])
  if inst['gtol'][1]:
    kw['geo_ratio_tolerance'] = inst['gtol'][0] / inst['gtol'][1]
  if inst['vtol'][1]:
    kw['volume_ratio_tolerance'] = inst['vtol'][0] / inst['vtol'][1]
  if inst['share'][1]:
    kw['treatment_share_range'] = (inst['share'][0] / inst['share'][1], inst['share'][2] / inst['share'][3])
  if inst['budget'] is not None:
    kw['budget_range'] = (inst['budget'][0] * scale, inst['budget'][1] * scale)
  if inst['nmax']:
    kw['n_geos_max'] = inst['nmax']
  if inst.get('float_ints'):
    # integer-valued floats are in the documented / accepted domain of the integer parameters
    for key in ('n_test', 'n_pretest_max', 'n_designs', 'n_geos_max'):
      if key in kw:
        kw[key] = float(kw[key])
    for key in ('treatment_geos_range', 'control_geos_range'):
      if key in kw:
        kw[key] = (float(kw[key][0]), float(kw[key][1]))
  par = tbrmmdesignparameters.TBRMMDesignParameters(**kw)
  data = tbrmmdata.TBRMMData(df, 'response', elig_obj)
  if variant.get('reverse_table_rows'):
    data.df = data.df.iloc[::-1]      # the same table, rows in another order (rows are found by geo ID)
  if variant.get('preindex', inst['id'] % 5 == 2 and set(variant) <= {'keep', 'no_events'}):
    # the user has looked at the data object first: a geo index (all assignable geos in row order, which is what a
    # searcher will install when nothing is screened out) is already set and the aggregates have been read
    try:
      data.geo_index = [g for g in data.df.index if g in data.assignable]
      if data.geo_index:
        data.aggregate_time_series({0})
        data.aggregate_geo_share({0})
    except Exception:  # pylint: disable=broad-except
      pass
  return data, par, ids


def close(a, b, rel=1e-9):
  if a == b:
    return True
  if isinstance(a, float) and isinstance(b, float) and (math.isinf(a) or math.isinf(b) or a != a or b != b):
    return False
  return abs(a - b) <= rel * max(abs(a), abs(b))


def project_design(inst, d, ids, which, scale=1.0):
  """Projects one returned TBRMMDesign to the contract vocabulary."""
  tab = inst['tab']
  num = {str(i): g + 1 for g, i in enumerate(ids)}
  t = sorted(num.get(str(x), 0) for x in d.treatment_geos)
  c = sorted(num.get(str(x), 0) for x in d.control_geos)
  out = {'t': t, 'c': c, 'yMasks': [], 'xMasks': [], 'scoreCodes': [], 'diagCodes': []}
  y = np.asarray(d.diag.y, dtype=float) / scale
  x = np.asarray(d.diag.x, dtype=float) / scale if d.diag.x is not None else None
  for m, s in tab['series'].items():
    if len(s) == len(y) and np.allclose(s, y, rtol=1e-12, atol=1e-9):
      out['yMasks'].append(m)
    if x is not None and len(s) == len(x) and np.allclose(s, x, rtol=1e-12, atol=1e-9):
      out['xMasks'].append(m)
  sc = tuple(d.score.score)
  exp = tab['scores_exh'] if which == 'exh' else tab['scores_greedy']
  last_scale = 1.0 if (which == 'exh' and inst['budget'] is not None) else scale
  dg = d.diag
  got_diag = (float(dg.corr), float(dg.required_impact) / scale, bool(dg.corr_test), bool(dg.aatest.test_ok),
              bool(dg.bbtest.test_ok), bool(dg.dwtest.test_ok))
  for code, e in exp.items():
    if (int(sc[0]), int(sc[1]), int(sc[2]), int(sc[3])) == e[:4] and close(float(sc[4]), e[4], 1e-12) and \
        close(float(sc[5]) * last_scale, e[5]):
      out['scoreCodes'].append(code)
    o = tab['diags'][code]
    if close(got_diag[0], o['corr']) and close(got_diag[1], o['ri']) and got_diag[2:] == (
        o['corr_ok'], o['aa_ok'], o['bb_ok'], o['dw_ok']):
      out['diagCodes'].append(code)
  return out


def perturb_caller_objects(par, df):
  """After a search the caller is free to reuse its own objects: the returned designs must not depend on them."""
  par.min_corr = 0.8 if par.min_corr >= 0.9 else 0.97
  par.n_test = par.n_test + 1
  par.sig_level, par.power_level = 0.6, 0.55
  par.flevel = 0.99
  par.n_pretest_max = max(4, par.n_pretest_max - 3)
  df['response'] = df['response'] * 3.0 + 1.0


def _outcome(inst, ids_fn, which, scale, thunk, after=None):
  """Runs thunk (a search of the real code) and projects what it returns; exceptions are outcomes."""
  projector = project_design_lite if inst.get('lite') else project_design
  try:
    try:
      res = core.with_timeout(thunk, SEARCH_TIMEOUT_S)
    except core.CallTimeout:
      return {'status': 'timeout', 'designs': [], 'error': 'the search did not return within %d s' % SEARCH_TIMEOUT_S}
    if not isinstance(res, list):
      return {'status': 'crash', 'designs': [], 'error': 'returned %s' % type(res).__name__}
    if after is not None:
      after()
    ids = ids_fn()
    return {'status': 'ok', 'designs': [projector(inst, d, ids, which, scale) for d in res], 'error': ''}
  except ValueError as e:
    return {'status': 'valueerror', 'designs': [], 'error': 'ValueError: %s' % e}
  except Exception as e:  # pylint: disable=broad-except
    tb = traceback.extract_tb(e.__traceback__)
    where = ''
    for fr in reversed(tb):
      if 'matched_markets' in fr.filename:
        where = '%s:%d' % (os.path.basename(fr.filename), fr.lineno)
        break
    return {'status': 'crash', 'designs': [], 'error': '%s: %s at %s' % (type(e).__name__, e, where)}


def run_search(inst, which, variant=None):
  """Runs one search of the real code on a fresh object; returns the projected result record."""
  variant = dict(variant or {})
  scale = variant.get('scale', 1.0)
  keep = {}
  variant['keep'] = keep
  box = {}

  events = []
  try:
    data, par, ids = build_objects(inst, variant)
  except Exception as e:  # pylint: disable=broad-except
    # the input objects themselves were rejected (C15 / C16 / C17 territory): there is no search to judge
    return {'status': 'unconstructible', 'designs': [], 'error': '%s: %s' % (type(e).__name__, e)}
  box['ids'], box['par'] = ids, par

  def thunk():
    from matched_markets.methodology import tbrmatchedmarkets, _verif_trace
    if inst['id'] % 7 == 3 and not inst.get('decoy'):
      # a RECONFIGURED searcher: it was built and used with other settings of the fields that are read at call time
      # (result cap, tolerances, size / share / budget ranges, n_geos_max, minimum correlation), then the caller assigned the intended
      # values to the fields of its parameter object.  What was true of the earlier settings must be forgotten.
      par0 = copy.copy(par)
      par0.n_designs = par.n_designs + 2
      par0.min_corr = 0.5 if par.min_corr >= 0.8 else 0.99
      par0.volume_ratio_tolerance = None if par.volume_ratio_tolerance is not None else 0.5
      par0.geo_ratio_tolerance = None if par.geo_ratio_tolerance is not None else 1.0
      for f in ('treatment_geos_range', 'control_geos_range', 'treatment_share_range', 'budget_range', 'n_geos_max'):
        setattr(par0, f, None)
      mmo = tbrmatchedmarkets.TBRMatchedMarkets(data, par0)
      try:
        mmo.count_max_designs()
        if inst['n'] <= 5:
          mmo.exhaustive_search()
        mmo.greedy_search()
        mmo.search_results()
      except Exception:  # pylint: disable=broad-except
        pass
      for f in RECONFIGURED:
        setattr(mmo.parameters, f, getattr(par, f))
      try:     # ... and the caller has set another geo index on the data object in between (fewer geos, other order)
        if data.geo_index is not None and len(data.geo_index) > 1:
          data.geo_index = list(reversed(data.geo_index))[:-1]
      except Exception:  # pylint: disable=broad-except
        pass
      box['par'] = mmo.parameters
    else:
      mmo = tbrmatchedmarkets.TBRMatchedMarkets(data, par)
    if inst.get('decoy'):
      interfere(mmo)
    if inst['id'] % 6 == 4:
      # the same search has been run before, on other objects built from the same inputs, and the caller has written
      # all over what it got back (its own objects): nothing of that may reach the search under test
      try:
        d0, p0, _ = build_objects(inst, {k: v for k, v in variant.items() if k in ('scale',)})
        m0 = tbrmatchedmarkets.TBRMatchedMarkets(d0, p0)
        for dsg in (m0.exhaustive_search() if inst['n'] <= 5 else m0.greedy_search()):
          for arr in (dsg.diag.bbtest.bounds, dsg.diag.y, dsg.diag.x):
            try:
              arr *= 0.0
            except Exception:  # pylint: disable=broad-except
              pass
          dsg.treatment_geos.clear()
          dsg.control_geos.clear()
      except Exception:  # pylint: disable=broad-except
        pass
    if inst['id'] % 4 == 1:
      # the caller has looked at the constraint sets first and edited what it was handed (its own objects now)
      for q in ('geos_over_budget', 'geos_too_large', 'geos_must_include', 'geos_within_constraints'):
        try:
          got = getattr(mmo, q)
          if isinstance(got, set):
            if q == 'geos_within_constraints':
              got.difference_update(set(mmo.geos_must_include) or set(sorted(got)[:1]))
            else:
              got.clear()
        except Exception:  # pylint: disable=broad-except
          pass
    _verif_trace.set_sink(lambda e, f: events.append((e, f)))
    try:
      return mmo.exhaustive_search() if which == 'exh' else mmo.greedy_search()
    finally:
      _verif_trace.set_sink(None)

  def after():
    if inst.get('perturb_after'):
      perturb_caller_objects(box['par'], keep['df'])
  out = _outcome(inst, lambda: box['ids'], which, scale, thunk, after)
  if not variant.get('no_events'):
    try:
      inst['events_' + which] = project_events(events, box.get('ids'))
    except Exception as e:  # pylint: disable=broad-except
      # hook events that cannot be mapped back to geos (indices outside the index in force): no step-level trace; the
      # outcome of the search itself is judged as usual
      inst['events_' + which] = {'started': False, 'events': [], 'unprojectable': '%s: %s' % (type(e).__name__, e)}
  return out


RECONFIGURED = ('n_designs', 'volume_ratio_tolerance', 'geo_ratio_tolerance', 'treatment_geos_range', 'control_geos_range',
                'treatment_share_range', 'budget_range', 'n_geos_max', 'min_corr')
_DECOY = {}


def interfere(mmo):
  """Between construction and search of the object under test, another, unrelated searcher is built and used.

  Objects share no data; a library whose answers change because of it keeps state outside its objects."""
  from matched_markets.methodology import tbrmatchedmarkets
  try:
    mmo.count_max_designs()
  except Exception:  # pylint: disable=broad-except
    pass
  if 'inst' not in _DECOY:
    rng = random.Random(4242)
    d = gen_instance(rng, 999999, 'random', nmax_geos=4)
    d.update(n_dates=d['n_dates'], default_elig=True, tr=(0, 0), cr=(0, 0), gtol=(0, 0), vtol=(0, 0), share=(0, 0, 0, 0),
             nmax=0, budget=None, want_budget=False)
    d['par']['iroas'] = 1.0
    d['par']['n_designs'] = 3
    _DECOY['inst'] = d
  data, par, _ = build_objects(_DECOY['inst'], {})
  dm = tbrmatchedmarkets.TBRMatchedMarkets(data, par)
  dm.count_max_designs()
  dm.exhaustive_search()
  dm.greedy_search()


def project_events(events, ids):
  """Hook events (geo indices) -> contract vocabulary (geo numbers). The index order comes from the start event."""
  out = {'started': False, 'events': [], 'heap_pushes': 0}
  if ids is None:
    return out
  num = {str(i): g + 1 for g, i in enumerate(ids)}
  index = None
  for name, f in events:
    if name in ('exh_start', 'greedy_start'):
      index = [num.get(str(x), 0) for x in f['index']]
      out['started'] = True
      if name == 'greedy_start':
        out['events'].append({'e': 'start', 'k': f['k'], 't': sorted(index[i] for i in f['trt']),
                              'c': sorted(index[i] for i in f['ctl']), 'v': 'needs' if f['needs_matching'] else 'free'})
    elif name == 'heap_push':
      out['heap_pushes'] += 1
    elif index is not None and name == 'exh_trt':
      out['events'].append({'e': 'trt', 't': sorted(index[i] for i in f['group']), 'c': [], 'v': f['verdict']})
    elif index is not None and name == 'exh_ctl':
      out['events'].append({'e': 'ctl', 't': sorted(index[i] for i in f['trt']), 'c': sorted(index[i] for i in f['ctl']),
                            'v': f['verdict']})
    elif index is not None and name.startswith('greedy_'):
      short = {'greedy_match_move': 'move', 'greedy_match_freeze': 'freeze', 'greedy_augment': 'augment',
               'greedy_keep': 'keep'}[name]
      out['events'].append({'e': short, 'k': f['k'], 't': sorted(index[i] for i in f.get('trt', [])),
                            'c': sorted(index[i] for i in f.get('ctl', [])), 'v': ''})
  return out


def run_shared(a, b):
  """Two searchers built on ONE TBRMMData object (the documented way to try several parameter sets).

  mode 'interleaved' (same n_pretest_max): A.count, B.count, A.exh, B.exh, A.exh again, B.greedy, A.greedy - A is judged on
  its second exhaustive result, i.e. after B has used the shared data object.
  mode 'sequential' (B has a smaller n_pretest_max): A searches first, then B is built on the same data; only B is judged
  afterwards (A's window has legitimately been truncated by B's construction).
  """
  from matched_markets.methodology import tbrmatchedmarkets
  mode = a['shared_mode']
  keep = {}
  box = {}
  if mode == 'shared_elig':
    return run_shared_elig(a, b)

  def construct():
    data, par_a, ids = build_objects(a, {'keep': keep})
    _, par_b, _ = build_objects(b, {})
    box.update(data=data, par_a=par_a, par_b=par_b, ids=ids)
  try:
    construct()
  except Exception as e:  # pylint: disable=broad-except
    r = {'status': 'unconstructible', 'designs': [], 'error': '%s: %s' % (type(e).__name__, e)}
    a['exh'] = a['greedy'] = b['exh'] = b['greedy'] = r
    return
  ids = box['ids']

  def out(inst, which, thunk):
    return _outcome(inst, lambda: ids, which, 1.0, thunk)
  mk = lambda par: tbrmatchedmarkets.TBRMatchedMarkets(box['data'], par)
  if mode == 'interleaved':
    try:
      ma, mb = mk(box['par_a']), mk(box['par_b'])
    except ValueError as e:
      r = {'status': 'valueerror', 'designs': [], 'error': 'ValueError: %s' % e}
      a['exh'] = a['greedy'] = b['exh'] = b['greedy'] = r
      return
    for m in (ma, mb):
      try:
        m.count_max_designs()
      except Exception:  # pylint: disable=broad-except
        pass
    out(a, 'exh', ma.exhaustive_search)
    b['exh'] = out(b, 'exh', mb.exhaustive_search)
    a['exh'] = out(a, 'exh', ma.exhaustive_search)
    b['greedy'] = out(b, 'greedy', mb.greedy_search)
    a['greedy'] = out(a, 'greedy', ma.greedy_search)
  else:
    a['exh'] = out(a, 'exh', lambda: mk(box['par_a']).exhaustive_search())
    a['greedy'] = out(a, 'greedy', lambda: mk(box['par_a']).greedy_search())
    holder = {}

    def build_b():
      holder['mb'] = mk(box['par_b'])
      return holder['mb'].exhaustive_search()
    b['exh'] = out(b, 'exh', build_b)
    b['greedy'] = out(b, 'greedy', lambda: (holder.get('mb') or mk(box['par_b'])).greedy_search())


def record_queries(inst):
  """The constraint-set queries of a fresh object, as geo numbers."""
  q = {'recorded': False, 'overBudget': [], 'tooLarge': [], 'mustInclude': [], 'admitted': [], 'admittedOk': False,
       'sizes': [], 'sizesOk': False}
  try:
    from matched_markets.methodology import tbrmatchedmarkets
    data, par, ids = build_objects(inst, {})
    mmo = tbrmatchedmarkets.TBRMatchedMarkets(data, par)
  except Exception:  # pylint: disable=broad-except
    return q
  num = {str(i): g + 1 for g, i in enumerate(ids)}
  try:
    q['overBudget'] = sorted(num[str(x)] for x in mmo.geos_over_budget)
    q['tooLarge'] = sorted(num[str(x)] for x in mmo.geos_too_large)
    q['mustInclude'] = sorted(num[str(x)] for x in mmo.geos_must_include)
    q['recorded'] = True
  except Exception:  # pylint: disable=broad-except
    return q
  try:
    q['admitted'] = sorted(num[str(x)] for x in mmo.geos_within_constraints)
    q['admittedOk'] = True
    q['sizes'] = [int(v) for v in mmo.treatment_group_size_range()]
    q['sizesOk'] = True
  except Exception:  # pylint: disable=broad-except
    pass
  return q


def run_shared_elig(a, b):
  """Two data objects (two panels of the same geos) built with ONE GeoEligibility object, searched in turns."""
  from matched_markets.methodology import tbrmatchedmarkets
  keep = {}
  try:
    data_a, par_a, ids = build_objects(a, {'keep': keep})
    data_b, par_b, ids_b = build_objects(b, {'elig_obj': keep.get('elig')})
  except Exception as e:  # pylint: disable=broad-except
    r = {'status': 'unconstructible', 'designs': [], 'error': '%s: %s' % (type(e).__name__, e)}
    a['exh'] = a['greedy'] = b['exh'] = b['greedy'] = r
    return
  holder = {}

  def mk(which):
    if which not in holder:
      holder[which] = tbrmatchedmarkets.TBRMatchedMarkets(data_a if which == 'a' else data_b, par_a if which == 'a' else par_b)
    return holder[which]
  a['exh'] = _outcome(a, lambda: ids, 'exh', 1.0, lambda: mk('a').exhaustive_search())
  b['exh'] = _outcome(b, lambda: ids_b, 'exh', 1.0, lambda: mk('b').exhaustive_search())
  a['greedy'] = _outcome(a, lambda: ids, 'greedy', 1.0, lambda: mk('a').greedy_search())
  b['greedy'] = _outcome(b, lambda: ids_b, 'greedy', 1.0, lambda: mk('b').greedy_search())


def run_instance(inst):
  t0 = time.time()
  if inst.get('partner') is None and not inst.get('is_partner'):
    inst['queries'] = record_queries(inst)
  if inst.get('partner') is not None:
    b = inst['partner']
    try:
      run_shared(inst, b)
    except Exception as e:  # pylint: disable=broad-except
      r = {'status': 'crash', 'designs': [], 'error': 'harness/shared: %s: %s' % (type(e).__name__, e)}
      for x in (inst, b):
        x.setdefault('exh', r)
        x.setdefault('greedy', r)
    b['cost_s'] = 0.0
  else:
    # the unit of the response is the user's business: some panels are recorded in units 2^23 times smaller (e.g.
    # micro-currency) or 2^17 times larger; the budget range is in the same unit.  Powers of two, so exact.
    unit = float(inst.get('unit', 1.0))
    variant = {'scale': unit} if unit != 1.0 else None
    inst['exh'] = run_search(inst, 'exh', variant)
    inst['greedy'] = run_search(inst, 'greedy', variant)
  inst['cost_s'] = time.time() - t0
  return inst


# ---------------------------------------------------------------------------------------------- TLC side
def to_tla(inst):
  tab = inst['tab']
  n = inst['n']
  rank = [0] * (3 ** n)
  bok = [False] * (3 ** n)
  for code, r in tab['ranks'].items():
    rank[code - 1] = r
    bok[code - 1] = bool(tab['budget_ok'][code])
  opt = [tab['opt_class'][m] for m in range(1, 2 ** n)]
  beats = [False] * (3 ** n)
  for code, sc in tab['scores_greedy'].items():
    beats[code - 1] = bool(tuple(sc) > (0, 0, 0, 0, 0, 0))

  def res(r):
    ds = [{'t': d['t'], 'c': d['c'], 'yMasks': d['yMasks'], 'xMasks': d['xMasks'], 'scoreCodes': d['scoreCodes'],
           'diagCodes': d['diagCodes']} for d in r['designs']]
    return {'status': r['status'], 'designs': ds}
  return {'id': inst['id'], 'n': n, 'elig': inst['elig'], 'w': tab['weights'], 'tr': list(inst['tr']),
          'cr': list(inst['cr']), 'gtol': list(inst['gtol']), 'vtol': list(inst['vtol']), 'share': list(inst['share']),
          'hasBudget': inst['budget'] is not None, 'k': inst['par']['n_designs'], 'nmax': inst['nmax'],
          'missingRequired': (not inst['default_elig']) and inst.get('extra_elig_row') in ('ct', 'c', 't', 'nan_ct'),
          'overBudget': tab['over_budget'], 'impactOrder': tab['impact_order'], 'rank': rank, 'budgetOK': bok,
          'opt': opt, 'beatsZero': beats, 'exh': res(inst['exh']), 'greedy': res(inst['greedy']),
          'queries': inst.get('queries') or {'recorded': False, 'overBudget': [], 'tooLarge': [], 'mustInclude': [],
                                            'admitted': [], 'admittedOk': False, 'sizes': [], 'sizesOk': False}}


def _tlc_chunk(args):
  idx, label, records = args
  rundir = tlc.run_dir('%s_chunk%02d' % (label, idx))
  path = os.path.join(rundir, 'instances.json')
  with open(path, 'w') as f:
    json.dump({'instances': records}, f)
  r = tlc.run_tlc('MMTrace', TRACE_CFG, rundir, workers=1, env={'TRACE_FILE': path}, timeout=3000,
                  java_opts=['-Xmx3g', '-XX:+UseSerialGC', '-XX:TieredStopAtLevel=1'])
  if r.returncode != 0:
    return {'error': 'TLC failed on MMTrace chunk %d (exit %s): %s' % (idx, r.returncode, r.stdout[-1500:])}
  return {'verdicts': [v for v in r.json_lines() if isinstance(v, dict) and 'fails' in v],
          'distinct': r.distinct, 'generated': r.generated, 'wall': r.wall_s}


def judge(res, insts, label, nchunks=8):
  """Runs MMTrace over the instances (parallel TLC processes). Returns id -> verdict."""
  records = [to_tla(i) for i in insts]
  nchunks = max(1, min(nchunks, len(records) // 12 or 1))
  chunks = [(c, label, records[c::nchunks]) for c in range(nchunks)]
  outs = par_mod.pmap(_tlc_chunk, chunks, nproc=nchunks, chunksize=1)
  verdicts = {}
  for o in outs:
    if 'error' in o:
      raise tlc.MachineryError(o['error'])
    res.states += o['distinct']
    res.transitions += o['generated']
    for v in o['verdicts']:
      verdicts[v['id']] = v
  res.tlc_runs.append({'label': 'MMTrace.' + label, 'chunks': nchunks, 'instances': len(records)})
  missing = [i['id'] for i in insts if i['id'] not in verdicts]
  if missing:
    raise tlc.MachineryError('MMTrace produced no verdict for instances %r' % missing[:5])
  return verdicts


FAMILIES = {
    'C01': [('random', 0.45), ('constraints', 0.25), ('truncate', 0.12), ('degenerate', 0.09), ('tiny', 0.09)],
    'C02': [('constraints', 0.5), ('random', 0.27), ('fixedtrt', 0.15), ('tiny', 0.08)],
    'C03': [('random', 0.4), ('constraints', 0.4), ('cancel', 0.1), ('negshare', 0.1)],
    'C04': [('random', 0.6), ('constraints', 0.4)],
    'C09': [('degenerate', 0.42), ('tiny', 0.23), ('constraints', 0.27), ('longtest', 0.08)],
    'C13': [('random', 0.45), ('constraints', 0.3), ('c13vol', 0.12), ('c13ratio', 0.13)],
    'C14': [('random', 0.7), ('constraints', 0.3)],
    'C11': [('random', 0.5), ('constraints', 0.5)],
}


def make_partner(rng, a, iid):
  """A second parameter set for the same panel and eligibility (both searchers share ONE data object).

  interleaved: the two parameter sets admit different geo sets - half of the time crafted so that both admit the same
  NUMBER of geos (A drops the largest geo through the share cap, B the lowest-impact geo through n_geos_max);
  sequential: B comes later with a smaller n_pretest_max, half of the time with otherwise identical parameters.
  """
  b = {k: v for k, v in a.items() if k not in ('partner', 'tab', 'exh', 'greedy')}
  b['par'] = dict(a['par'])
  b['id'] = iid
  b['family'] = a['family'] + '+partner'
  b['is_partner'] = True
  b['budget'] = None
  n = a['n']
  if a['shared_mode'] == 'shared_elig':
    # another panel of the same geos (different volumes, hence another size order), the SAME GeoEligibility object
    nprng = np.random.RandomState(rng.randint(0, 2 ** 31 - 1))
    b['cells'] = gen_panel(nprng, n, a['n_dates'])
    b['want_budget'] = a['want_budget']
    b['extra_elig_row'] = a['extra_elig_row'] = False
    return b
  if a['shared_mode'] == 'sequential':
    b['par']['n_pretest_max'] = max(a['par']['n_test'] + 3, min(a['par']['n_pretest_max'], a['n_dates']) - rng.randint(1, 6))
    b['par']['n_designs'] = rng.choice([1, 2, 5])
    if rng.random() < 0.5:
      b['want_budget'] = a['want_budget']
      b['budget_mode'] = a['budget_mode']
      return b
  if rng.random() < 0.5 and n >= 3:
    # crafted: equal-sized but different admitted sets
    tot = {g: sum(v for (gg, _), v in a['cells'].items() if gg == g) for g in range(1, n + 1)}
    order = sorted(tot.values(), reverse=True)
    cap = int(100 * (order[0] + order[1]) / 2.0 / sum(order))
    if 1 < cap < 99 and 100 * order[1] < cap * sum(order) < 100 * order[0]:
      a['share'] = (1, 100, cap, 100)
      a['nmax'] = 0
      a['want_budget'] = False
      b['share'] = (0, 0, 0, 0)
      b['nmax'] = max(2, n - 1)
      b['want_budget'] = False
      b['par']['n_designs'] = rng.choice([2, 3, 5])
      a['par']['n_designs'] = rng.choice([2, 3, 5])
      return b
  b['nmax'] = 0 if a['nmax'] else rng.randint(max(2, n - 2), max(2, n - 1))
  if rng.random() < 0.5:
    lo = rng.randint(1, 10)
    b['share'] = (0, 0, 0, 0) if a['share'][1] else (lo, 100, rng.randint(30, 70), 100)
  b['want_budget'] = not a['want_budget']
  b['tr'] = a['tr'] if rng.random() < 0.5 else (0, 0)
  b['par']['n_designs'] = rng.choice([1, 2, 5])
  return b


def make_instances(seed, owner, count, nmax_geos=6):
  rng = random.Random(seed * 1000003 + sum(map(ord, owner)))
  fams = FAMILIES.get(owner, FAMILIES['C01'])
  insts = []
  for i in range(count):
    fam = rng.choices([f for f, _ in fams], weights=[w for _, w in fams])[0]
    inst = gen_instance(rng, i + 1, fam, nmax_geos)
    if owner == 'C13':
      inst['share'] = (0, 0, 0, 0)
      inst['want_budget'] = False
    inst['perturb_after'] = rng.random() < 0.5
    inst['decoy'] = rng.random() < 0.25
    inst['unit'] = {5: 2.0 ** 23, 8: 2.0 ** -17}.get((i + 1) % 11, 1.0)
    insts.append(inst)
    if owner in ('C01', 'C03', 'C04') and inst['n'] >= 3 and inst['n'] <= 5 and rng.random() < 0.3:
      inst['shared_mode'] = rng.choice(['interleaved', 'sequential', 'shared_elig'] if not inst['default_elig'] else
                                       ['interleaved', 'sequential'])
      inst['partner'] = make_partner(rng, inst, 100000 + inst['id'])
      inst['perturb_after'] = False
  return insts


def _prep(inst):
  try:
    if inst.get('partner') is not None:
      attach_oracle(inst['partner'])
    return attach_oracle(inst)
  except Exception as e:  # pylint: disable=broad-except
    inst['tab'] = None
    inst['oracle_error'] = '%s: %s' % (type(e).__name__, e)
    return inst


def public(inst):
  """JSON-able description of an instance for replay files / samples."""
  return {'id': inst['id'], 'family': inst['family'], 'n': inst['n'], 'n_dates': inst['n_dates'],
          'cells': [[g, d, v] for (g, d), v in sorted(inst['cells'].items())], 'elig': inst['elig'],
          'default_elig': inst['default_elig'], 'par': inst['par'], 'tr': inst['tr'], 'cr': inst['cr'],
          'gtol': inst['gtol'], 'vtol': inst['vtol'], 'share': inst['share'], 'nmax': inst['nmax'],
          'budget': inst['budget'], 'want_budget': False, 'budget_mode': inst['budget_mode'],
          'ids_kind': inst['ids_kind'], 'extra_elig_row': inst['extra_elig_row'], 'shuffle_seed': inst['shuffle_seed'],
          'float_ints': bool(inst.get('float_ints')), 'unit': float(inst.get('unit', 1.0)),
          'perturb_after': bool(inst.get('perturb_after')), 'decoy': bool(inst.get('decoy')), 'shared_mode': inst.get('shared_mode'),
          'is_partner': bool(inst.get('is_partner')),
          'partner': public(inst['partner']) if inst.get('partner') is not None else None}


def from_public(p):
  inst = dict(p)
  inst['cells'] = {(g, d): v for g, d, v in p['cells']}
  for k in ('tr', 'cr', 'gtol', 'vtol', 'share'):
    inst[k] = tuple(inst[k])
  if inst['budget'] is not None:
    inst['budget'] = tuple(inst['budget'])
  if inst.get('partner') is not None:
    inst['partner'] = from_public(inst['partner'])
  return inst


def summarize(inst):
  def rs(r):
    return {'status': r['status'], 'designs': [(d['t'], d['c']) for d in r['designs']], 'error': r.get('error', '')}
  return {'exhaustive': rs(inst['exh']), 'greedy': rs(inst['greedy'])}


def run_search_clauses(res, owner, count=None):
  """Generates instances, runs both searches, lets MMTrace judge, reports the clauses owned by `owner`."""
  thorough = res.tier == 'thorough'
  if count is None:
    count = 2600 if thorough else 260
  insts = make_instances(res.seed, owner, count)
  insts = par_mod.pmap(_prep, insts)
  dropped = [i for i in insts if i['tab'] is None or i['tab']['margin'] < oracle.REL]
  insts = [i for i in insts if not (i['tab'] is None or i['tab']['margin'] < oracle.REL)]
  res.extra['dropped_nongeneric'] = res.extra.get('dropped_nongeneric', 0) + len(dropped)
  def generic(i):
    return i['tab'] is not None and i['tab']['margin'] >= oracle.REL
  for i in insts:
    if i.get('partner') is not None and not generic(i['partner']):
      i['partner'] = None
  insts = par_mod.pmap(run_instance, insts, chunksize=1)
  partners = [i['partner'] for i in insts if i.get('partner') is not None]
  res.extra['search_shared_data_pairs'] = res.extra.get('search_shared_data_pairs', 0) + len(partners)
  insts = insts + partners
  unbuilt = [i for i in insts if i['exh']['status'] == 'unconstructible' or i['greedy']['status'] == 'unconstructible']
  res.extra['dropped_unconstructible'] = res.extra.get('dropped_unconstructible', 0) + len(unbuilt)
  for i in unbuilt[:3]:
    res.note('input objects rejected at construction (not judged): %s' % i['exh']['error'])
  insts = [i for i in insts if i not in unbuilt]
  verdicts = judge(res, insts, owner)
  primary_of = {i['partner']['id']: i for i in insts if i.get('partner') is not None}
  stats = {'instances': len(insts), 'exh_nonempty': 0, 'greedy_nonempty': 0, 'valueerror': 0, 'with_obligations': 0,
           'k_binds': 0, 'budget': 0, 'share': 0, 'nmax': 0, 'designs_judged': 0, 'crash': 0}
  other = {}
  for inst in insts:
    v = verdicts[inst['id']]
    res.traces += 1
    res.case_seen(('inst', inst['id']))
    stats['exh_nonempty'] += bool(inst['exh']['designs'])
    stats['greedy_nonempty'] += bool(inst['greedy']['designs'])
    stats['valueerror'] += (inst['exh']['status'] == 'valueerror') + (inst['greedy']['status'] == 'valueerror')
    stats['crash'] += (inst['exh']['status'] == 'crash') + (inst['greedy']['status'] == 'crash')
    stats['with_obligations'] += v['facts']['obl'] > 0
    stats['k_binds'] += v['facts']['obl'] > inst['par']['n_designs']
    stats['budget'] += inst['budget'] is not None
    stats['share'] += inst['share'][1] != 0
    stats['nmax'] += inst['nmax'] != 0
    stats['designs_judged'] += len(inst['exh']['designs']) + len(inst['greedy']['designs'])
    mine = sorted(c for c in v['fails'] if c.startswith(owner + ':'))
    for c in v['fails']:
      if c.startswith('QUERY:'):
        qd = res.extra.setdefault('query_drift', {})
        qd[c] = qd.get(c, 0) + 1
        res.note('NOTE drift instance %d: a constraint-set query of the real object differs from MMDefs (%s)' % (inst['id'], c))
      elif not c.startswith(owner + ':'):
        other[c] = other.get(c, 0) + 1
    for c in mine:
      root = primary_of.get(inst['id'], inst)
      res.violate(c.split(':', 1)[1], {'kind': 'search', 'instance': public(root), 'judged': inst['id'],
                                       'observed': summarize(inst), 'facts': v['facts']},
                  'MMTrace rejects the recorded results: clause %s; exhaustive=%s greedy=%s' % (
                      c, summarize(inst)['exhaustive'], summarize(inst)['greedy']))
  res.extra.setdefault('query_drift', {})
  res.extra['queries_compared'] = res.extra.get('queries_compared', 0) + sum(
      1 for i in insts if (i.get('queries') or {}).get('recorded'))
  for k, val in stats.items():
    res.extra['search_' + k] = res.extra.get('search_' + k, 0) + val
  if other:
    res.note('clauses of other properties rejected in this run (reported by their own checks): %r' % other)
  for inst in insts[:2]:
    res.sample({'instance': {k: v for k, v in public(inst).items() if k != 'cells'}, 'observed': summarize(inst),
                'verdict': verdicts[inst['id']]})
  return insts, verdicts, stats


def replay_case(res, blob):
  c = blob['case']
  if c.get('kind') == 'large_greedy':
    inst = _run_lite(_prep_lite(from_public(c['instance'])))
    out = _lite_chunk((0, 'replay', [to_tla_lite(inst)]))
    if 'error' in out:
      raise tlc.MachineryError(out['error'])
    res.traces += 1
    res.case_seen('replay')
    for cl in out['verdicts'][0]['fails']:
      if cl.startswith(blob['property'] + ':'):
        res.violate(cl.split(':', 1)[1], c, 'still rejected: %s' % [(d['t'], d['c']) for d in inst['greedy']['designs']])
    return
  inst = _prep(from_public(c['instance']))
  inst = run_instance(inst)
  group = [inst] + ([inst['partner']] if inst.get('partner') is not None else [])
  verdicts = judge(res, group, 'replay', nchunks=1)
  res.traces += 1
  res.case_seen('replay')
  owner = blob['property']
  for g in group:
    if g['id'] != c.get('judged', inst['id']):
      continue
    for cl in verdicts[g['id']]['fails']:
      if cl.startswith(owner + ':'):
        res.violate(cl.split(':', 1)[1], c, 'still rejected: %s' % summarize(g))


def vacuity_guard(res, owner, stats):
  need = {'C01': ['exh_nonempty', 'greedy_nonempty'], 'C02': ['exh_nonempty', 'greedy_nonempty', 'budget', 'share'],
          'C03': ['exh_nonempty', 'with_obligations', 'k_binds', 'budget'], 'C04': ['designs_judged'],
          'C09': ['instances'], 'C13': ['greedy_nonempty', 'exh_nonempty'], 'C14': ['exh_nonempty', 'k_binds']}
  for key in need.get(owner, []):
    if stats.get(key, 0) == 0:
      raise tlc.MachineryError('vacuous run for %s: %s = 0 (%r)' % (owner, key, stats))


RULES = {
    'C01': 'clause Legal on every design returned by either search',
    'C02': 'clauses TreatmentSizeRange / ControlSizeRange / GeoRatio / VolumeRatio / TreatmentShare / Budget on every returned design',
    'C03': 'clauses Distinct / ReturnsMinKFeasible / NothingBetterOmitted / RejectsOnlyUnsatisfiable on every exhaustive result',
    'C04': 'clauses SeriesOfReportedGeos / DiagnosticsOfReportedGeos / ScoreOfReportedGeos at every position of every result list',
    'C09': 'clause RaisesOnlyValueError on both searches of every instance (degenerate families over-sampled)',
    'C13': 'clauses GreedyWithinRankedFeasibleSet / GreedyEmptyWhenNothingFeasible / GreedyEmptyWhenExhaustiveEmpty / GreedyNotAboveOptimum / GreedyNotAboveExhaustiveBest',
    'C14': 'clauses Capped / BestFirst on both result lists',
}


def describe(res, owner):
  res.exhaustive = False
  res.rule = ('random instances (1-6 geos, 12-26 dates, integer panels, all seven eligibility classes + geos absent from '
              'the table, any subset of the six constraints, n_geos_max, n_pretest_max, n_designs 1..50) generated from '
              'VERIF_SEED; both searches run on fresh objects; MMTrace.tla judges ' + RULES.get(owner, '') +
              '; distinct = distinct instances; non-trivial = every instance (counts of non-empty results, binding k, '
              'budget/share instances are in search_* keys); instances within 1e-9 of a float threshold are dropped '
              'before running the code (dropped_nongeneric)')
  res.assumptions += ['numeric facts (ranks of score tuples, budget verdicts, optimistic budget classes, impact order) come '
                      'from the independent numpy/scipy oracle harness/oracle.py; scipy t/F quantiles are trusted',
                      'design space = designs over the admitted geos (DESIGN.md section 4 C03)']


# ---------------------------------------------------------------------------------------------- step level (hooks)
def count_of(inst):
  """count_max_designs() of the real code on a fresh object (-1 when it raises)."""
  try:
    from matched_markets.methodology import tbrmatchedmarkets
    data, par, _ = build_objects(inst, {})
    return int(tbrmatchedmarkets.TBRMatchedMarkets(data, par).count_max_designs())
  except Exception:  # pylint: disable=broad-except
    return -1


def _step_chunk(args):
  idx, label, records, module = args
  rundir = tlc.run_dir('%s_%s%02d' % (label, module, idx))
  path = os.path.join(rundir, 'instances.json')
  with open(path, 'w') as f:
    json.dump({'instances': records}, f)
  r = tlc.run_tlc(module, TRACE_CFG, rundir, workers=1, env={'TRACE_FILE': path}, timeout=3000,
                  java_opts=['-Xmx3g', '-XX:+UseSerialGC', '-XX:TieredStopAtLevel=1'])
  if r.returncode != 0:
    return {'error': 'TLC failed on %s chunk %d (exit %s): %s' % (module, idx, r.returncode, r.stdout[-1500:])}
  return {'verdicts': [v for v in r.json_lines() if isinstance(v, dict) and 'fails' in v],
          'distinct': r.distinct, 'generated': r.generated}


def judge_steps(res, insts, label, nchunks=8, module='MMStepTrace'):
  """MMStepTrace / MMStepTraceG over the recorded hook events of a search. Returns id -> verdict."""
  records = []
  for i in insts:
    rec = to_tla(i)
    if module == 'MMStepTrace':
      ev = i.get('events_exh') or {'started': False, 'events': []}
      rec['events'] = [{'e': e['e'], 't': e['t'], 'c': e['c'], 'v': e['v']} for e in ev['events']]
      rec['started'] = bool(ev['started'])
      rec['count'] = i.get('count', -1)
    else:
      ev = i.get('events_greedy') or {'started': False, 'events': []}
      rec['gevents'] = [{'e': e['e'], 'k': e.get('k', 0), 't': e['t'], 'c': e['c'], 'v': e['v']} for e in ev['events']]
    records.append(rec)
  nchunks = max(1, min(nchunks, len(records) // 12 or 1))
  outs = par_mod.pmap(_step_chunk, [(c, label, records[c::nchunks], module) for c in range(nchunks)], nproc=nchunks,
                      chunksize=1)
  verdicts = {}
  for o in outs:
    if 'error' in o:
      raise tlc.MachineryError(o['error'])
    res.states += o['distinct']
    res.transitions += o['generated']
    for v in o['verdicts']:
      verdicts[v['id']] = v
  res.tlc_runs.append({'label': module + '.' + label, 'chunks': nchunks, 'instances': len(records)})
  missing = [i['id'] for i in insts if i['id'] not in verdicts]
  if missing:
    raise tlc.MachineryError('%s produced no verdict for instances %r' % (module, missing[:5]))
  return verdicts


def _with_count(inst):
  inst['count'] = count_of(inst)
  return inst


def run_step_validation(res, insts, owner, module='MMStepTrace'):
  """Step-level binding of MMImplX (module MMStepTrace) / MMImplG (module MMStepTraceG): drift is a note; the C11
  clauses are violations when owner is C11."""
  key = 'events_exh' if module == 'MMStepTrace' else 'events_greedy'
  what = 'exhaustive_search()' if module == 'MMStepTrace' else 'greedy_search()'
  solo = [i for i in insts if i.get('partner') is None and not i.get('is_partner') and key in i]
  if owner == 'C11':
    solo = par_mod.pmap(_with_count, solo, chunksize=1)
  verdicts = judge_steps(res, solo, owner, module=module)
  drift = {}
  events = 0
  for inst in solo:
    v = verdicts[inst['id']]
    events += v['facts']['events']
    for c in v['fails']:
      if c.startswith('STEP'):
        drift[c] = drift.get(c, 0) + 1
        if len(res.notes) < 40:
          res.note('NOTE drift instance %d: the recorded steps of %s are not steps of the implementation-shaped model (%s)' % (
              inst['id'], what, c))
      elif c.startswith(owner + ':'):
        res.violate(c.split(':', 1)[1], {'kind': 'steps', 'instance': public(inst), 'count': inst.get('count', -1),
                                         'evaluated': v['facts']['evaluated']},
                    'MMStepTrace rejects the recorded steps: %s (count_max_designs()=%s, designs evaluated=%s)' % (
                        c, inst.get('count', -1), v['facts']['evaluated']))
  res.extra['step_traces_validated'] = res.extra.get('step_traces_validated', 0) + len(solo)
  res.extra['step_events_validated'] = res.extra.get('step_events_validated', 0) + events
  res.extra.setdefault('step_drift', {}).update(drift)
  res.traces += len(solo)
  if solo and events == 0:
    raise tlc.MachineryError('no hook events were recorded: is GOOGLE_MATCHED_MARKETS_VERIF=1 set and the hook commit present?')
  return verdicts


# ---------------------------------------------------------------------------------------------- large panels (greedy only)
def attach_oracle_lite(inst):
  """Per-geo facts only (weights, screens, impact order): no tables over all designs."""
  keep_in_tlc_range(inst)
  n = inst['n']
  p = oracle_par(inst)
  full = np.zeros((n, inst['n_dates']))
  for (g, d), v in inst['cells'].items():
    full[g - 1, d] = v
  window = full[:, -p['n_pretest_max']:]
  term = oracle.impact_term(p['n_test'], window.shape[1], p['flevel'], p['sig_level'], p['power_level'])
  margins = oracle.Margins()
  geo_impact = [term * oracle.std2(window[g]) * math.sqrt(1 - p['rho_max'] ** 2) for g in range(n)]
  iroas = p['iroas']
  if inst['want_budget'] and inst['budget'] is None and iroas > 0:
    single = sorted(v / iroas for v in geo_impact)
    r = random.Random(inst['shuffle_seed'])
    hi = r.choice([single[len(single) // 2] * 3, single[-1] * 2, single[-1] * 20])
    lo = r.choice([0.0, 0.0, single[0] * 0.1])
    inst['budget'] = (float('%.6g' % lo), float('%.6g' % hi))
    p = oracle_par(inst)
  budget = p.get('budget_range')
  over = []
  if budget is not None:
    for g in range(n):
      margins.see(geo_impact[g], budget[1] * iroas, 'geo over budget')
      if geo_impact[g] > budget[1] * iroas:
        over.append(g + 1)
  order = sorted(range(1, n + 1), key=lambda g: -geo_impact[g - 1])
  for i in range(len(order) - 1):
    margins.see(geo_impact[order[i] - 1], geo_impact[order[i + 1] - 1], 'impact order tie')
  weights = [int(round(full[g].sum())) for g in range(n)]
  share = p.get('treatment_share_range')
  if share is not None:
    for g in range(n):
      margins.see(weights[g] / float(sum(weights)), share[1], 'geo too large')
  inst['tab'] = {'weights': weights, 'geo_impact': geo_impact, 'over_budget': over, 'impact_order': order, 'term': term,
                 'window': window, 'margin': margins.min, 'margin_where': margins.where, 'par': p}
  inst['lite'] = True
  return inst


def project_design_lite(inst, d, ids, which, scale=1.0):
  """One returned design against the oracle evaluated on that design only."""
  tab = inst['tab']
  p = tab['par']
  num = {str(i): g + 1 for g, i in enumerate(ids)}
  t = sorted(num.get(str(x), 0) for x in d.treatment_geos)
  c = sorted(num.get(str(x), 0) for x in d.control_geos)
  out = {'t': t, 'c': c, 'budgetOK': True, 'seriesOK': False, 'diagOK': False, 'scoreOK': False, 'score': None, 'margin': 1.0}
  if not t or not c or 0 in t or 0 in c or set(t) & set(c):
    return out
  y = tab['window'][[g - 1 for g in t]].sum(axis=0)
  x = tab['window'][[g - 1 for g in c]].sum(axis=0)
  m = oracle.Margins()
  o = oracle.diagnostics(x, y, p, tab['term'], m, 'lite')
  budget = p.get('budget_range')
  if budget is not None:
    rb = o['ri'] / p['iroas'] if p['iroas'] != 0 else float('inf')
    m.see(rb, budget[0], 'budget lo')
    m.see(rb, budget[1], 'budget hi')
    out['budgetOK'] = bool(budget[0] <= rb <= budget[1])
  vt = p.get('volume_ratio_tolerance')
  if vt is not None:
    wt = sum(tab['weights'][g - 1] for g in t)
    wc = sum(tab['weights'][g - 1] for g in c)
    m.see(wc / float(wt), 1 + vt, 'volume hi')
    m.see(wc / float(wt), 1 / (1 + vt), 'volume lo')
  sh = p.get('treatment_share_range')
  if sh is not None:
    wt = sum(tab['weights'][g - 1] for g in t)
    for ref in (sum(tab['weights']),):
      m.see(wt / float(ref), sh[0], 'share lo')
      m.see(wt / float(ref), sh[1], 'share hi')
  out['margin'] = m.min
  dy = np.asarray(d.diag.y, dtype=float)
  dx = np.asarray(d.diag.x, dtype=float) if d.diag.x is not None else None
  out['seriesOK'] = bool(len(dy) == len(y) and np.allclose(dy, y, rtol=1e-12, atol=1e-9) and dx is not None and
                         len(dx) == len(x) and np.allclose(dx, x, rtol=1e-12, atol=1e-9))
  dg = d.diag
  got = (float(dg.corr), float(dg.required_impact), bool(dg.corr_test), bool(dg.aatest.test_ok), bool(dg.bbtest.test_ok),
         bool(dg.dwtest.test_ok))
  out['diagOK'] = bool(close(got[0], o['corr']) and close(got[1], o['ri']) and got[2:] == (
      o['corr_ok'], o['aa_ok'], o['bb_ok'], o['dw_ok']))
  exp = oracle.score_tuple(o, (1.0 / o['ri']) if o['ri'] != 0 else float('inf'))
  sc = tuple(d.score.score)
  out['scoreOK'] = bool((int(sc[0]), int(sc[1]), int(sc[2]), int(sc[3])) == exp[:4] and close(float(sc[4]), exp[4], 1e-12) and
                        close(float(sc[5]), exp[5]))
  out['score'] = exp
  return out


def to_tla_lite(inst):
  tab = inst['tab']
  r = inst['greedy']
  scores = {i: d['score'] for i, d in enumerate(r['designs']) if d.get('score') is not None}
  ranks = oracle.dense_ranks(scores) if scores else {}
  ds = [{'t': d['t'], 'c': d['c'], 'budgetOK': bool(d['budgetOK']), 'rk': int(ranks.get(i, 0)), 'seriesOK': bool(d['seriesOK']),
         'diagOK': bool(d['diagOK']), 'scoreOK': bool(d['scoreOK'])} for i, d in enumerate(r['designs'])]
  return {'id': inst['id'], 'n': inst['n'], 'elig': inst['elig'], 'w': tab['weights'], 'tr': list(inst['tr']),
          'cr': list(inst['cr']), 'gtol': list(inst['gtol']), 'vtol': list(inst['vtol']), 'share': list(inst['share']),
          'hasBudget': inst['budget'] is not None, 'k': inst['par']['n_designs'], 'nmax': inst['nmax'],
          'missingRequired': (not inst['default_elig']) and inst.get('extra_elig_row') in ('ct', 'c', 't', 'nan_ct'),
          'overBudget': tab['over_budget'], 'impactOrder': tab['impact_order'],
          'greedy': {'status': r['status'], 'designs': ds}}


def _lite_chunk(args):
  idx, label, records = args
  rundir = tlc.run_dir('%s_lite%02d' % (label, idx))
  path = os.path.join(rundir, 'instances.json')
  with open(path, 'w') as f:
    json.dump({'instances': records}, f)
  r = tlc.run_tlc('MMTraceLite', TRACE_CFG, rundir, workers=1, env={'TRACE_FILE': path}, timeout=3000,
                  java_opts=['-Xmx3g', '-XX:+UseSerialGC', '-XX:TieredStopAtLevel=1'])
  if r.returncode != 0:
    return {'error': 'TLC failed on MMTraceLite chunk %d (exit %s): %s' % (idx, r.returncode, r.stdout[-1500:])}
  return {'verdicts': [v for v in r.json_lines() if isinstance(v, dict) and 'fails' in v], 'distinct': r.distinct,
          'generated': r.generated}


def _prep_lite(inst):
  try:
    return attach_oracle_lite(inst)
  except Exception as e:  # pylint: disable=broad-except
    inst['tab'] = None
    inst['oracle_error'] = '%s: %s' % (type(e).__name__, e)
    return inst


def _run_lite(inst):
  inst['greedy'] = run_search(inst, 'greedy', {'no_events': True})
  return inst


def run_large_greedy(res, owner, count=None):
  """greedy_search() on 7-14 geos: the clauses about returned designs, judged by MMTraceLite.tla."""
  thorough = res.tier == 'thorough'
  if count is None:
    count = 400 if thorough else 48
  rng = random.Random(res.seed * 7907 + sum(map(ord, owner)) + 5)
  insts = []
  for i in range(count):
    fam = rng.choice(['random', 'constraints', 'constraints'])
    inst = gen_instance(rng, 500000 + i, fam, nmax_geos=6)
    n = rng.randint(7, 14)
    nprng = np.random.RandomState(rng.randint(0, 2 ** 31 - 1))
    inst['n'] = n
    inst['cells'] = gen_panel(nprng, n, inst['n_dates'])
    inst['elig'] = ['ctx'] * n if inst['default_elig'] else rng.choices(CLASSES, weights=CLASS_W, k=n)
    if inst['tr'][1]:
      inst['tr'] = (inst['tr'][0], rng.randint(inst['tr'][0], n))
    if inst['cr'][1]:
      inst['cr'] = (inst['cr'][0], rng.randint(inst['cr'][0], n))
    if inst['nmax']:
      inst['nmax'] = rng.randint(max(2, n - 5), n)
    inst['family'] = 'large:' + fam
    inst['perturb_after'] = rng.random() < 0.5
    inst['decoy'] = rng.random() < 0.2
    inst['budget'] = None
    insts.append(inst)
  insts = par_mod.pmap(_prep_lite, insts)
  insts = [i for i in insts if i['tab'] is not None and i['tab']['margin'] >= oracle.REL]
  insts = par_mod.pmap(_run_lite, insts, chunksize=1)
  kept = []
  for i in insts:
    if i['greedy']['status'] == 'unconstructible':
      continue
    if any(d.get('margin', 1.0) < oracle.REL for d in i['greedy']['designs']):
      res.extra['dropped_nongeneric'] = res.extra.get('dropped_nongeneric', 0) + 1
      continue
    kept.append(i)
  records = [to_tla_lite(i) for i in kept]
  nchunks = max(1, min(6, len(records) // 8 or 1))
  outs = par_mod.pmap(_lite_chunk, [(c, owner, records[c::nchunks]) for c in range(nchunks)], nproc=nchunks, chunksize=1)
  verdicts = {}
  for o in outs:
    if 'error' in o:
      raise tlc.MachineryError(o['error'])
    res.states += o['distinct']
    res.transitions += o['generated']
    for v in o['verdicts']:
      verdicts[v['id']] = v
  res.tlc_runs.append({'label': 'MMTraceLite.' + owner, 'chunks': nchunks, 'instances': len(records)})
  nonempty = 0
  for inst in kept:
    v = verdicts.get(inst['id'])
    if v is None:
      raise tlc.MachineryError('MMTraceLite produced no verdict for instance %d' % inst['id'])
    res.traces += 1
    res.case_seen(('large', inst['id']))
    nonempty += bool(inst['greedy']['designs'])
    for c in v['fails']:
      if c.startswith(owner + ':'):
        res.violate(c.split(':', 1)[1], {'kind': 'large_greedy', 'instance': public(inst),
                                         'observed': {'status': inst['greedy']['status'], 'error': inst['greedy'].get('error', ''),
                                                      'designs': [(d['t'], d['c']) for d in inst['greedy']['designs']]}},
                    'MMTraceLite rejects the recorded greedy result on %d geos: clause %s; designs %s %s' % (
                        inst['n'], c, [(d['t'], d['c']) for d in inst['greedy']['designs']], inst['greedy'].get('error', '')))
  res.extra['large_greedy_instances'] = len(kept)
  res.extra['large_greedy_nonempty'] = nonempty
  if kept and nonempty == 0 and owner != 'C09':
    raise tlc.MachineryError('vacuous: no large-panel greedy run returned a design')
  return kept, verdicts
