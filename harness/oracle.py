"""Independent oracle for the matched-markets search properties.

Written against numpy/scipy only; never imports matched_markets. Works from the raw cells of the panel
(geo, date ordinal, value) and a plain parameter dict, and re-derives from the documented formulas everything the
TLA+ contract needs as *instance constants*: integer share weights, per-geo screens, and tables indexed by the ternary
design code (rank of the score tuple, budget verdict) and by the treatment bitmask (optimistic budget class).
"""
import math

import numpy as np
from scipy import stats

REL = 1e-9   # generic-position margin (relative)


def code_of(tset, cset):
  """Ternary code of a design over geos numbered 1..n: digit 1 = treatment, 2 = control. 1-based for TLA+."""
  c = 0
  for g in tset:
    c += 3 ** (g - 1)
  for g in cset:
    c += 2 * 3 ** (g - 1)
  return c + 1


def mask_of(s):
  return sum(2 ** (g - 1) for g in s)


def impact_term(n_test, n, flevel, sig_level, power_level):
  phi = stats.f(dfn=1, dfd=n - 1).ppf(flevel)
  tq_sig = stats.t.ppf(sig_level, df=n - 2)
  tq_pow = stats.t.ppf(power_level, df=n - 2)
  return (tq_sig + tq_pow) * n_test * math.sqrt(phi * (n + 1) / (n * n_test * (n - 1)) + 1.0 / n + 1.0 / n_test)


def ols(x, y):
  xm, ym = x.mean(), y.mean()
  sxx = ((x - xm) ** 2).sum()
  b = ((x - xm) * (y - ym)).sum() / sxx
  a = ym - b * xm
  resid = y - a - b * x
  return a, b, resid


def std2(v):
  n = len(v)
  return math.sqrt(((v - v.mean()) ** 2).sum() / (n - 2))


class Margins:
  """Smallest relative distance of any thresholded decision to its threshold."""

  def __init__(self):
    self.min = float('inf')
    self.where = ''

  def see(self, value, threshold, what):
    scale = max(abs(value), abs(threshold), 1e-300)
    m = abs(value - threshold) / scale
    if m < self.min:
      self.min, self.where = m, what


def diagnostics(x, y, par, term, margins=None, tag=''):
  """corr, required impact and the four test verdicts for control series x and treatment series y."""
  n = len(y)
  n_test = par['n_test']
  corr = float(np.corrcoef(x, y)[0, 1])
  sigma_y = std2(y)
  ri = term * sigma_y * math.sqrt(max(0.0, 1 - corr ** 2))
  a, b, resid = ols(x, y)
  sigma = std2(resid)
  # Brownian bridge
  k = np.arange(1, n)
  bounds = 3.0 * np.sqrt(k * (1.0 - k / float(n)))
  acs = np.abs(np.cumsum(resid / sigma)[:-1])
  bb_ok = not bool(np.any(acs > bounds))
  # Durbin-Watson
  d = resid[1:] - resid[:-1]
  dw = float((d ** 2).sum() / (resid ** 2).sum())
  dw_ok = 1.5 < dw < 2.5
  # A/A test on the last n_test points
  n_pre = n - n_test
  xp, yp = x[:n_pre], y[:n_pre]
  a0, b0, r0 = ols(xp, yp)
  s0 = std2(r0)
  dx = x[n_pre:].mean() - xp.mean()
  dy = y[n_pre:].mean() - yp.mean()
  est = n_test * (dy - b0 * dx)
  dv = dx ** 2 / (((xp - xp.mean()) ** 2).sum() / n_pre)
  tq = stats.t.ppf(par['sig_level'], df=n_pre - 2)
  scale = n_test * s0 * math.sqrt((1 + dv) / n_pre + 1.0 / n_test)
  cihw = tq * scale
  lower, upper = est - cihw, est + cihw
  prob = None
  if lower * upper < 0:
    aa_ok = True
  else:
    true_mean = min(abs(lower), abs(upper))
    tq_sig = cihw / s0
    post = s0 * math.sqrt(1.0 / n_pre + 1.0 / n_test)
    tq1 = tq_sig - true_mean / post
    tq2 = -tq_sig - true_mean / post
    prob = 1 - stats.t.cdf(tq1, df=n_pre - 2) + stats.t.cdf(tq2, df=n_pre - 2)
    aa_ok = bool(prob <= 0.2)
  corr_ok = corr >= par['min_corr']
  if margins is not None:
    margins.see(corr, par['min_corr'], 'min_corr ' + tag)
    margins.see(dw, 1.5, 'dw ' + tag)
    margins.see(dw, 2.5, 'dw ' + tag)
    mbb = float(np.min(np.abs(acs - bounds) / np.maximum(bounds, 1e-300)))
    if mbb < margins.min:
      margins.min, margins.where = mbb, 'bb ' + tag
    margins.see(lower * upper, 0.0, 'aa sign ' + tag) if abs(lower * upper) < 1e-12 * max(est * est, 1e-300) else None
    if prob is not None:
      margins.see(prob, 0.2, 'aa prob ' + tag)
    frac = corr * 100 - math.floor(corr * 100)
    if abs(frac - 0.5) < 1e-6:
      margins.min, margins.where = min(margins.min, 0.0), 'round(corr) ' + tag
  return {'corr': corr, 'ri': ri, 'corr_ok': bool(corr_ok), 'aa_ok': bool(aa_ok), 'bb_ok': bool(bb_ok),
          'dw_ok': bool(dw_ok), 'dw': dw, 'sigma': sigma, 'a': a, 'b': b}


def score_tuple(dg, last):
  return (int(dg['corr_ok']), int(dg['aa_ok']), int(dg['bb_ok']), int(dg['dw_ok']), round(dg['corr'], 2), last)


def dense_ranks(scores):
  """scores: dict code -> tuple. Higher tuple = better = higher rank. Near-equal last entries share a rank."""
  items = sorted(scores.items(), key=lambda kv: kv[1])
  ranks = {}
  r = 0
  prev = None
  for code, sc in items:
    if prev is None:
      r = 1
    else:
      same_head = sc[:5] == prev[:5]
      a, b = sc[5], prev[5]
      close = (a == b) or (math.isfinite(a) and math.isfinite(b) and abs(a - b) <= 1e-9 * max(abs(a), abs(b)))
      if not (same_head and close):
        r += 1
    ranks[code] = r
    prev = sc
  return ranks


def subsets(n):
  for m in range(1, 2 ** n):
    yield m, [g for g in range(1, n + 1) if m >> (g - 1) & 1]


def build(geos, cells, par, n_dates_all):
  """geos: list of geo IDs (position g-1 <-> geo number g); cells: dict (g, date_ordinal) -> value over ALL dates
  0..n_dates_all-1 (missing = 0); par: plain dict of parameters.  Returns the instance tables."""
  n = len(geos)
  full = np.zeros((n, n_dates_all))
  for (g, d), v in cells.items():
    full[g - 1, d] = v
  weights = [int(round(full[g].sum())) for g in range(n)]
  window = full[:, -par['n_pretest_max']:]
  npts = window.shape[1]
  term = impact_term(par['n_test'], npts, par['flevel'], par['sig_level'], par['power_level'])
  margins = Margins()
  iroas = par['iroas']
  budget = par.get('budget_range')
  # per-geo optimistic impact
  geo_impact = [term * std2(window[g]) * math.sqrt(1 - par['rho_max'] ** 2) for g in range(n)]
  over_budget = []
  if budget is not None:
    for g in range(n):
      margins.see(geo_impact[g], budget[1] * iroas, 'geo over budget %d' % (g + 1))
      if geo_impact[g] > budget[1] * iroas:
        over_budget.append(g + 1)
  order = sorted(range(1, n + 1), key=lambda g: -geo_impact[g - 1])
  for i in range(len(order) - 1):
    margins.see(geo_impact[order[i] - 1], geo_impact[order[i + 1] - 1], 'impact order tie')
  wall = sum(weights)
  share = par.get('treatment_share_range')
  vtol = par.get('volume_ratio_tolerance')
  if share is not None:
    for g in range(n):
      margins.see(weights[g] / wall, share[1], 'geo too large %d' % (g + 1))
  series = {m: window[[g - 1 for g in gs]].sum(axis=0) for m, gs in subsets(n)}
  opt_class = {}
  for m, gs in subsets(n):
    if budget is None or iroas == 0:
      opt_class[m] = 0 if budget is None else 2
      continue
    ob = term * std2(series[m]) * math.sqrt(1 - par['rho_max'] ** 2) / iroas
    margins.see(ob, budget[0], 'optimistic budget lo %d' % m)
    margins.see(ob, budget[1], 'optimistic budget hi %d' % m)
    opt_class[m] = 2 if ob > budget[1] else (1 if ob < budget[0] else 0)
    if share is not None:
      pass
  for m, gs in subsets(n):
    wt = sum(weights[g - 1] for g in gs)
    if share is not None:
      margins.see(wt / wall, share[0], 'share lo %d' % m)
      margins.see(wt / wall, share[1], 'share hi %d' % m)
  diags = {}
  scores_exh, scores_greedy = {}, {}
  budget_ok = {}
  for mt, tg in subsets(n):
    for mc, cg in subsets(n):
      if mt & mc:
        continue
      code = code_of(tg, cg)
      dg = diagnostics(series[mc], series[mt], par, term, margins, 'T%d C%d' % (mt, mc))
      diags[code] = dg
      inv = (1.0 / dg['ri']) if dg['ri'] != 0 else float('inf')
      scores_greedy[code] = score_tuple(dg, inv)
      if budget is not None:
        scores_exh[code] = score_tuple(dg, (budget[1] / dg['ri']) if dg['ri'] != 0 else float('inf'))
        rb = dg['ri'] / iroas if iroas != 0 else float('inf')
        margins.see(rb, budget[0], 'budget lo code %d' % code)
        margins.see(rb, budget[1], 'budget hi code %d' % code)
        budget_ok[code] = bool(budget[0] <= rb <= budget[1])
      else:
        scores_exh[code] = scores_greedy[code]
        budget_ok[code] = True
      if vtol is not None:
        wt = sum(weights[g - 1] for g in tg)
        wc = sum(weights[g - 1] for g in cg)
        if wt > 0:
          margins.see(wc / wt, 1 + vtol, 'volume hi code %d' % code)
          margins.see(wc / wt, 1 / (1 + vtol), 'volume lo code %d' % code)
  ranks = dense_ranks(scores_exh)     # the order is the same under both last-entry rules (monotone rescaling)
  return {
      'n': n, 'weights': weights, 'geo_impact': geo_impact, 'over_budget': over_budget, 'impact_order': order,
      'opt_class': opt_class, 'budget_ok': budget_ok, 'ranks': ranks, 'diags': diags,
      'scores_exh': scores_exh, 'scores_greedy': scores_greedy, 'series': series, 'npts': npts,
      'margin': margins.min, 'margin_where': margins.where, 'term': term,
  }
