"""ScoreOrder.tla: the lexicographic score order and design validation, enumerated by TLC and replayed into
tbrmmscore.TBRMMScore / tbrmmdesign.TBRMMDesign (extra part of C03 and C14)."""
import heapq

from harness import tlc

CFG = """SPECIFICATION Spec
CONSTANTS CorrVals = {0, 1, 2}
 InvVals = {0, 1, 2}
 Geos = {1, 2, 3}
INVARIANT Irreflexive
INVARIANT Trichotomy
INVARIANT TestsDominate
%s
INVARIANT Emit
"""


def run(res, thorough=False):
  import numpy as np
  from matched_markets.methodology import tbrmmdesign, tbrmmdesignparameters, tbrmmdiagnostics, tbrmmscore
  r = tlc.run_tlc('ScoreOrder', CFG % ('INVARIANT Transitive' if thorough else ''), tlc.run_dir(res.prop + '_scoreorder'), workers=1,
                  timeout=1800)
  tlc.require_clean(r, 'ScoreOrder')
  if r.violated:
    raise tlc.MachineryError('ScoreOrder.tla violates %s' % r.violated)
  res.add_tlc(r, 'ScoreOrder')
  cases = r.json_lines()
  par = tbrmmdesignparameters.TBRMMDesignParameters(n_test=3, iroas=1.0)
  rng = np.random.RandomState(3)
  base = np.cumsum(rng.normal(size=12)) + 20

  cache = {}

  def score_obj(tup, who=0):
    key = (tuple(tup), who)
    if key not in cache:
      cache[key] = make_score(tup)
    return cache[key]

  def make_score(tup):
    d = tbrmmdiagnostics.TBRMMDiagnostics(base * 2 + rng.normal(size=12), par)
    d.x = base
    s = tbrmmscore.TBRMMScore(d)
    s.score = tbrmmscore.Scoring(int(tup[0]), int(tup[1]), int(tup[2]), int(tup[3]), tup[4] / 100.0 + 0.8, float(tup[5]) + 0.25)
    return s
  n_pairs = n_groups = 0
  for k in cases:
    if k['kind'] == 'pair':
      n_pairs += 1
      sa, sb = score_obj(k['a'], 0), score_obj(k['b'], 1)
      da = tbrmmdesign.TBRMMDesign(sa, {1}, {2})
      db = tbrmmdesign.TBRMMDesign(sb, {1}, {3})
      got = (bool(sa < sb), bool(sb < sa), bool(da < db), bool(db < da))
      want = (k['less'], k['greater'], k['less'], k['greater'])
      first = heapq.nlargest(1, [da, db])[0]
      ok_first = (first is db) if k['less'] else ((first is da) if k['greater'] else True)
      if got != want or not ok_first:
        res.violate('ScoreOrderIsLexicographic', {'kind': 'scoreorder', 'a': k['a'], 'b': k['b']},
                    'scores %r vs %r: (a<b, b<a, design a<b, design b<a) = %r, the documented lexicographic order '
                    'demands %r; best-first puts the right one first: %s' % (k['a'], k['b'], got, want, ok_first))
        if len(res.violations) > 10:
          break
    else:
      n_groups += 1
      t, c = set(map(str, k['t'])), set(map(str, k['c']))
      try:
        tbrmmdesign.TBRMMDesign(score_obj([1, 1, 1, 1, 0, 1]), t, c)
        accepted = True
      except ValueError:
        accepted = False
      except Exception as e:  # pylint: disable=broad-except
        accepted = 'crash: %s' % type(e).__name__
      if accepted != k['ok']:
        res.violate('DesignObjectRejectsEmptyOrOverlappingGroups', {'kind': 'scoreorder', 't': k['t'], 'c': k['c']},
                    'TBRMMDesign(treatment=%r, control=%r): accepted=%r, demanded %r' % (sorted(t), sorted(c), accepted, k['ok']))
  res.traces += n_pairs + n_groups
  res.extra['score_order_pairs_replayed'] = n_pairs
  res.extra['design_validation_cases_replayed'] = n_groups
  if n_pairs == 0 or n_groups == 0:
    raise tlc.MachineryError('ScoreOrder emitted no cases')
