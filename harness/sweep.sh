#!/bin/sh
# usage: sweep.sh <tier> <seed>... : runs every check once per seed, prints one line per run (for hunting false alarms)
tier=$1; shift
for seed in "$@"; do
  for id in C01 C02 C03 C04 C05 C06 C07 C08 C09 C10 C11 C12 C13 C14 C15 C16 C17 C18 C19 C20; do
    out=$(VERIF_SEED=$seed ./check $id --tier $tier 2>&1 | grep -v conda | grep -E "OK tier|VIOLATION|MACHINERY|clause=" | head -3 | tr '\n' ' ')
    echo "seed=$seed $id $out"
  done
done
