"""./check EXTRAS - behaviour no listed property owns: the pure helper functions of utils.py, common_classes.py and
semantics.py against spec/Utils.tla (spec -> code, every case TLC enumerates) and utils.randomize_strata against
spec/UtilsTrace.tla (code -> spec).

This is NOT a property check: it never prints a VIOLATION line and writes no evidence file.  It prints one
DISAGREEMENT line per (function, clause) on which code and contract differ, DRIFT lines for deviations that the spec
itself records as the behaviour of the code as written, writes /verif/extras/coverage.json and exits 0 (agreement up
to recorded drift), 1 (a disagreement) or 2 (machinery).
"""
import datetime
import decimal
import json
import math
import os
import random as pyrandom

from harness import core
from harness import tlc

CFG = """SPECIFICATION Spec
INVARIANT RoundingKeepsThreeDigits
INVARIANT KwargSubset
INVARIANT FreqWeeklyNeedsSevenDayGap
INVARIANT StrataCountsAgree
INVARIANT Emit
CHECK_DEADLOCK FALSE
"""
TRACE_CFG = """SPECIFICATION Spec
CHECK_DEADLOCK FALSE
"""
CHARS = {1: 'k', 2: '_', 3: 'a'}
SUFFIX = ['', 'K', 'M', 'B', 'tn']
BASES = [datetime.date(2020, 2, 24), datetime.date(2019, 12, 25), datetime.date(2021, 3, 22)]


def seq(x):
  if isinstance(x, dict):
    return []
  return x


def name_of(k):
  return ''.join(CHARS[c] for c in k)


def hrn_text(rounded, mag, neg, e=0):
  d = decimal.Decimal(rounded) * (decimal.Decimal(10) ** e) / (decimal.Decimal(1000) ** mag)
  text = format(d, 'f')
  if '.' in text:
    text = text.rstrip('0').rstrip('.')
  return ('-' if neg and rounded else '') + text + SUFFIX[mag]


def call(fn):
  try:
    return 'ok', fn()
  except Exception as e:  # pylint: disable=broad-except
    return type(e).__name__, str(e)[:200]


def replay_case(c, idx, mods):
  """Returns None (agreement), ('drift', clause, detail) or ('bad', clause, detail)."""
  pd, np, utils, cc, sem = mods
  fn = c['fn']
  if fn == 'freq':
    base = BASES[idx % len(BASES)]
    rows = []
    for j, days in enumerate(c['series']):
      for d in seq(days):
        rows.append({'date': pd.Timestamp(base + datetime.timedelta(days=d)), 'geo': 'g%d' % j, 'response': float(d)})
    pyrandom.Random(idx).shuffle(rows)
    df = pd.DataFrame(rows)
    st, out = call(lambda: utils.infer_frequency(df, 'date', 'geo'))
    got = out if st == 'ok' else ('error' if st == 'ValueError' else st)
    if got != c['want']:
      return 'bad', 'freq:Frequency', 'series %r: %r (%s), contract %r' % (c['series'], got, out if st != 'ok' else '', c['want'])
  elif fn == 'hrn':
    n = (-c['n'] if c['neg'] else c['n']) * 10 ** c['e']
    want = hrn_text(c['rounded'], c['mag'], c['neg'], c['e'])
    for arg in (n, float(n)):
      st, out = call(lambda: utils.human_readable_number(arg))
      if st != 'ok' or out != want:
        return 'bad', 'hrn:ThreeDigitsAndSuffix', 'human_readable_number(%r) = %r, contract %r' % (arg, out, want)
  elif fn == 'order':
    x = (-c['n'] if c['neg'] else c['n']) / 1000.0
    st, out = call(lambda: utils.float_order(x))
    want = -math.inf if c['want'] == -999 else float(c['want'])
    if st != 'ok' or float(out) != want:
      return 'bad', 'order:FloorLog10', 'float_order(%r) = %r, contract %r' % (x, out, want)
  elif fn == 'kwarg':
    names = [name_of(k) for k in c['names']]
    kwargs = {nm: j for j, nm in enumerate(names)}
    want = {name_of(k)[2:]: kwargs[name_of(k)] for k in seq(c['want'])}
    st, out = call(lambda: utils.kwarg_subdict('k_', **kwargs))
    if st == 'ok' and out == want:
      return None
    if c['asis_raises'] and st == 'AttributeError':
      return 'drift', 'kwarg:NameContainsPrefixFurtherRight', 'kwarg_subdict(%r, %s) raises AttributeError; contract %r' % (
          'k_', ', '.join(names), want)
    return 'bad', 'kwarg:PrefixedArgumentsStripped', 'kwarg_subdict(%r, %s) = %r (%s), contract %r' % (
        'k_', ', '.join(names), out, st, want)
  elif fn == 'bridge':
    for m in (c['m'], float(c['m']), c['m'] * 0.5):
      if m != c['m'] and c['m'] <= 0:
        continue
      st, out = call(lambda: utils.brownian_bridge_bounds(c['n'], m))
      if not c['ok']:
        if st != 'ValueError':
          return 'bad', 'bridge:Rejects', 'brownian_bridge_bounds(%r, %r): %s %r, contract ValueError' % (c['n'], m, st, out)
        continue
      scale = (m / float(c['m'])) ** 2
      want = [scale * num / float(den) for num, den in c['squares']]
      if st != 'ok' or not isinstance(out, list) or len(out) != len(want) or any(
          abs(o * o - w) > 1e-12 * max(1.0, w) or o < 0 for o, w in zip(out, want)):
        return 'bad', 'bridge:Squares', 'brownian_bridge_bounds(%r, %r) = %r (%s), squares demanded %r' % (c['n'], m, out, st, want)
  elif fn == 'window':
    base = BASES[idx % len(BASES)]
    a, b = base + datetime.timedelta(days=c['a']), base + datetime.timedelta(days=c['b'])
    for mk in (pd.Timestamp, lambda d: d.isoformat(), lambda d: d):
      st, out = call(lambda: cc.TimeWindow(mk(a), mk(b)))
      if c['ok'] and not (st == 'ok' and pd.Timestamp(out.first_day) == pd.Timestamp(a) and
                          pd.Timestamp(out.last_day) == pd.Timestamp(b) and
                          isinstance(out.first_day, pd.Timestamp) and isinstance(out.last_day, pd.Timestamp)):
        return 'bad', 'window:Accepts', 'TimeWindow(%s, %s): %s %r' % (a, b, st, out)
      if not c['ok'] and st != 'ValueError':
        return 'bad', 'window:RejectsReversed', 'TimeWindow(%s, %s): %s, contract ValueError' % (a, b, st)
  elif fn == 'series':
    rows = seq(c['rows'])
    cols = ['date', 'estimate', 'lower', 'upper']
    data = {'date': [pd.Timestamp('2020-01-01') + pd.Timedelta(days=j) for j in range(len(rows))],
            'estimate': [float(r[0]) for r in rows], 'lower': [float(r[1]) for r in rows],
            'upper': [float(r[2]) for r in rows]}
    if c['missing']:
      del data[cols[c['missing'] - 1]]
    st, out = call(lambda: cc.EstimatedTimeSeriesWithConfidenceInterval(data))
    want = c['want']
    got = {'ok': 'ok', 'KeyError': 'keyerror'}.get(st, st)
    if st == 'ValueError':
      got = 'lower' if 'lower bound' in out else ('upper' if 'upper bound' in out else 'ValueError')
    if got != want:
      return 'bad', 'series:BoundsBracketEstimate', 'rows %r (missing column %d): %s %r, contract %s' % (rows, c['missing'], st, out if st != 'ok' else '', want)
  elif fn == 'sem':
    lab = c['labels']
    if c['kind'] == 'group':
      st, out = call(lambda: sem.GroupSemantics(control=lab[0], treatment=lab[1], unassigned=lab[2]))
      okv = st == 'ok' and (out.control, out.treatment, out.unassigned) == tuple(lab)
    else:
      st, out = call(lambda: sem.PeriodSemantics(pre=lab[0], test=lab[1], cooldown=lab[2], unassigned=lab[3]))
      okv = st == 'ok' and (out.pre, out.test, out.cooldown, out.unassigned) == tuple(lab)
    if c['ok'] and not okv:
      return 'bad', 'sem:AcceptsDistinctLabels', '%s labels %r: %s %r' % (c['kind'], lab, st, out)
    if not c['ok'] and st != 'ValueError':
      return 'bad', 'sem:RejectsRepeatedLabels', '%s labels %r: %s, contract ValueError' % (c['kind'], lab, st)
  elif fn == 'strata':
    pass   # design-level count only (StrataCountsAgree); the code is judged by UtilsTrace.tla
  else:
    raise tlc.MachineryError('unknown function %r in an emitted case' % fn)
  return None


def load_mods():
  import numpy as np
  import pandas as pd
  from matched_markets.methodology import common_classes
  from matched_markets.methodology import semantics
  from matched_markets.methodology import utils
  return pd, np, utils, common_classes, semantics


def chunk_worker(job):
  start, cases = job
  mods = load_mods()
  import warnings
  warnings.simplefilter('ignore')
  out = []
  for j, c in enumerate(cases):
    try:
      r = replay_case(c, start + j, mods)
    except tlc.MachineryError:
      raise
    except Exception as e:  # pylint: disable=broad-except
      r = ('bad', c['fn'] + ':HarnessException', '%s: %s on %r' % (type(e).__name__, e, c))
    if r:
      out.append((start + j, r))
  return out


def strata_traces(utils, seed, count):
  traces, outcomes = [], {}
  for j in range(count):
    rng = pyrandom.Random(seed * 7919 + j)
    k = rng.randint(1, 4)
    n = rng.randint(0, 13)
    labels = rng.choice([list(range(1, k + 1)), ['g%d' % i for i in range(k)], [(i, 'x') for i in range(k)]])
    back = {repr(v): i + 1 for i, v in enumerate(labels)}
    s = rng.randint(0, 10 ** 6)
    out = utils.randomize_strata(n, list(labels), seed=s)
    again = utils.randomize_strata(n, list(labels), seed=s)
    enc = lambda xs: [back.get(repr(v), 0) for v in xs]
    traces.append({'id': j, 'n': n, 'k': k, 'out': enc(out), 'again': enc(again)})
    if (n, k) in ((3, 2), (4, 2), (3, 3)):
      outcomes.setdefault((n, k), set()).add(tuple(enc(out)))
  # the global random instance (seed=None) must obey the same contract
  for j in range(count // 10):
    k, n = 1 + j % 3, j % 9
    out = utils.randomize_strata(n, list(range(1, k + 1)))
    traces.append({'id': count + j, 'n': n, 'k': k, 'out': list(out), 'again': list(out)})
  return traces, outcomes


def main(tier, seed):
  core.use_repo()
  from harness import par
  try:
    r = tlc.run_tlc('Utils', CFG, tlc.run_dir('EXTRAS_utils'), workers=1, timeout=3000)
    tlc.require_clean(r, 'Utils')
    if r.violated:
      raise tlc.MachineryError('Utils.tla violates %s (spec bug)' % r.violated)
    cases = r.json_lines()
    if len(cases) != r.init_states or not cases:
      raise tlc.MachineryError('one emitted case per initial state expected (%d), got %d' % (r.init_states, len(cases)))
    by_fn = {}
    for c in cases:
      by_fn[c['fn']] = by_fn.get(c['fn'], 0) + 1
    need = {'freq', 'hrn', 'order', 'kwarg', 'bridge', 'window', 'series', 'sem', 'strata'}
    if set(by_fn) != need:
      raise tlc.MachineryError('functions emitted %r, expected %r' % (sorted(by_fn), sorted(need)))
    # quick: every case of the small functions, a deterministic third of the two big families
    if tier != 'thorough':
      cases = [c for j, c in enumerate(cases) if c['fn'] not in ('freq', 'kwarg') or (j + seed) % 3 == 0]
    load_mods()
    size = 400
    jobs = [(i, cases[i:i + size]) for i in range(0, len(cases), size)]
    found = [x for chunk in par.pmap(chunk_worker, jobs) for x in chunk]
    # code -> spec: randomize_strata
    mods = load_mods()
    traces, outcomes = strata_traces(mods[2], seed, 3000 if tier == 'thorough' else 600)
    rd = tlc.run_dir('EXTRAS_strata')
    os.makedirs(rd, exist_ok=True)
    tf = os.path.join(rd, 'traces.json')
    with open(tf, 'w') as f:
      json.dump({'traces': traces}, f)
    rt = tlc.run_tlc('UtilsTrace', TRACE_CFG, rd, workers=1, timeout=3000, env={'TRACE_FILE': tf})
    tlc.require_clean(rt, 'UtilsTrace')
    verdicts = [v for v in rt.json_lines() if isinstance(v, dict) and 'fails' in v]
    if len(verdicts) != len(traces):
      raise tlc.MachineryError('%d verdicts for %d strata traces' % (len(verdicts), len(traces)))
    for v in verdicts:
      for clause in seq(v['fails']):
        found.append((v['id'], ('bad', 'strata:' + clause, json.dumps(traces[v['id']]))))
  except tlc.MachineryError as e:
    print('MACHINERY-FAILURE: extras %s' % e)
    return 2
  drift, bad = {}, {}
  for idx, (kind, clause, detail) in found:
    d = drift if kind == 'drift' else bad
    d.setdefault(clause, []).append(detail)
  for clause, ds in sorted(drift.items()):
    print('DRIFT: %s (%d case(s); the spec records this as the behaviour of the code as written) e.g. %s' % (
        clause, len(ds), ds[0]))
  for clause, ds in sorted(bad.items()):
    print('DISAGREEMENT: %s (%d case(s)) e.g. %s' % (clause, len(ds), ds[0]))
  cov = {'tier': tier, 'seed': seed, 'cases_by_function': by_fn, 'cases_replayed': len(cases),
         'strata_traces_judged': len(traces),
         'strata_outcomes_reached': {'n=%d,k=%d' % k: len(v) for k, v in sorted(outcomes.items())},
         'drift': {k: len(v) for k, v in drift.items()}, 'disagreements': {k: len(v) for k, v in bad.items()},
         'tlc': {'Utils': {'distinct_states': r.distinct, 'wall_s': r.wall_s}, 'UtilsTrace': {'wall_s': rt.wall_s}}}
  if core.REPO == '/repo':
    os.makedirs('/verif/extras', exist_ok=True)
    with open('/verif/extras/coverage.json', 'w') as f:
      json.dump(cov, f, indent=1, sort_keys=True)
  print('EXTRAS: %s tier=%s functions=%d cases=%d strata_traces=%d drift_classes=%d' % (
      'DISAGREE' if bad else 'OK', tier, len(by_fn), len(cases), len(traces), len(drift)))
  return 1 if bad else 0
