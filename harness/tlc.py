"""Thin runner around TLC / SANY: run a module with a cfg, collect statistics and PrintT output."""
import json
import os
import re
import shutil
import subprocess
import time

VERIF = os.path.dirname(os.path.dirname(os.path.abspath(__file__)))
SPEC_DIR = os.path.join(VERIF, 'spec')
RUN_ROOT = os.path.join(VERIF, 'run')
TLA_JAR = '/opt/veriftools/tla/tla2tools.jar'
CM_JAR = '/opt/veriftools/tla/CommunityModules-deps.jar'


class MachineryError(Exception):
  """Raised when the tooling (not the property) failed: exit code 2."""


class TLCResult:

  def __init__(self):
    self.stdout = ''
    self.returncode = None
    self.generated = 0
    self.distinct = 0
    self.init_states = 0
    self.wall_s = 0.0
    self.violated = None      # name of violated invariant / property, or None
    self.error_trace = []     # list of state texts
    self.coverage = {}        # action name -> (distinct, generated)
    self.printed = []         # raw PrintT lines
    self.ok = False
    self.cmd = ''

  @property
  def transitions(self):
    return max(self.generated - self.init_states, 0)

  def json_lines(self):
    """PrintT(ToJson(x)) prints a TLA+ string: a quoted, escaped JSON text per line."""
    out = []
    for line in self.printed:
      line = line.strip()
      if line.startswith('"') and line.endswith('"'):
        try:
          out.append(json.loads(json.loads(line)))
        except ValueError:
          continue
    return out


def run_dir(name, clean=True):
  alt = os.environ.get('VERIF_REPO', '/repo')
  if alt != '/repo':
    # runs against scratch trees (mutants, seeded changes) get their own directories so that they can run
    # next to a run against /repo
    name = '%s_alt_%s' % (name, os.path.basename(alt.rstrip('/')))
  d = os.path.join(RUN_ROOT, name)
  if clean and os.path.isdir(d):
    shutil.rmtree(d, ignore_errors=True)
  os.makedirs(d, exist_ok=True)
  return d


_STATS = re.compile(r'(\d+) states generated, (\d+) distinct states found')
_SIM = re.compile(r'The number of states generated: (\d+)')
_INIT = re.compile(r'Finished computing initial states: (\d+) distinct state')
_INIT2 = re.compile(r'Finished computing initial states: (\d+) states generated, with (\d+) of them distinct')
_INV = re.compile(r'Error: Invariant (\S+) is violated')
_PROP = re.compile(r'Error: (?:Action|Temporal) propert(?:y|ies) (\S*)')
_COV = re.compile(r'^<(\w+) line \d+, col \d+ to line \d+, col \d+ of module (\w+)>: (\d+):(\d+)')


def run_tlc(module, cfg_text, rundir, workers=1, env=None, extra=None, timeout=1800,
            simulate=None, depth=None, seed=None, coverage=False, deadlock=False,
            java_opts=None, extra_modules=(), extra_texts=None):
  """Runs TLC on spec/<module>.tla with the given cfg text inside rundir.

  All spec modules are copied into rundir so TLC's relative lookups and generated files
  stay out of /verif/spec.
  """
  os.makedirs(rundir, exist_ok=True)
  for f in os.listdir(SPEC_DIR):
    if f.endswith('.tla'):
      shutil.copy(os.path.join(SPEC_DIR, f), os.path.join(rundir, f))
  for path in extra_modules:
    shutil.copy(path, os.path.join(rundir, os.path.basename(path)))
  for name, text in (extra_texts or {}).items():
    with open(os.path.join(rundir, name), 'w') as f:
      f.write(text)
  cfg_path = os.path.join(rundir, module + '.cfg')
  with open(cfg_path, 'w') as f:
    f.write(cfg_text)
  meta = os.path.join(rundir, 'meta_' + module)
  shutil.rmtree(meta, ignore_errors=True)
  jtmp = os.path.join(rundir, 'jtmp_' + module)      # TLC's scratch files stay out of /tmp and go away with the run
  shutil.rmtree(jtmp, ignore_errors=True)
  os.makedirs(jtmp, exist_ok=True)
  cmd = ['java', '-Djava.io.tmpdir=' + jtmp]
  if not (java_opts and any('GC' in o for o in java_opts)):
    cmd.append('-XX:+UseParallelGC')
  if java_opts:
    cmd += list(java_opts)
  cmd += ['-cp', TLA_JAR + ':' + CM_JAR, 'tlc2.TLC', '-metadir', meta, '-noGenerateSpecTE',
          '-workers', str(workers), '-config', cfg_path]
  if not deadlock:
    cmd += ['-deadlock']
  if coverage:
    cmd += ['-coverage', '1']
  if simulate is not None:
    cmd += ['-simulate', simulate]
  if depth is not None:
    cmd += ['-depth', str(depth)]
  if seed is not None:
    cmd += ['-seed', str(seed)]
  if extra:
    cmd += list(extra)
  cmd += [module + '.tla']
  full_env = dict(os.environ)
  if env:
    full_env.update({k: str(v) for k, v in env.items()})
  t0 = time.time()
  try:
    p = subprocess.run(cmd, cwd=rundir, env=full_env, stdout=subprocess.PIPE,
                       stderr=subprocess.STDOUT, timeout=timeout, text=True, errors='replace')
  except subprocess.TimeoutExpired as e:
    raise MachineryError('TLC timed out after %ss on %s' % (timeout, module)) from e
  r = TLCResult()
  r.cmd = ' '.join(cmd)
  r.wall_s = time.time() - t0
  shutil.rmtree(jtmp, ignore_errors=True)
  r.stdout = p.stdout
  r.returncode = p.returncode
  with open(os.path.join(rundir, module + '.out'), 'w') as f:
    f.write(p.stdout)
  in_trace = False
  cur = []
  for line in p.stdout.splitlines():
    m = _STATS.search(line)
    if m:
      r.generated, r.distinct = int(m.group(1)), int(m.group(2))
    m = _SIM.search(line)
    if m:
      r.generated = int(m.group(1))
    m = _INIT.search(line)
    if m:
      r.init_states = int(m.group(1))
    m = _INIT2.search(line)
    if m:
      r.init_states = int(m.group(2))
    m = _INV.search(line)
    if m:
      r.violated = m.group(1)
    elif line.startswith('Error: Action property') or line.startswith('Error: Temporal properties'):
      r.violated = r.violated or line.strip()
    m = _COV.match(line)
    if m:
      r.coverage[m.group(1)] = (int(m.group(3)), int(m.group(4)))
    if line.startswith('"'):
      r.printed.append(line)
    if line.startswith('State ') and ':' in line:
      in_trace = True
      if cur:
        r.error_trace.append('\n'.join(cur))
      cur = [line]
    elif in_trace:
      if line.strip() == '' :
        if cur:
          r.error_trace.append('\n'.join(cur))
          cur = []
      else:
        cur.append(line)
  if cur:
    r.error_trace.append('\n'.join(cur))
  r.ok = (p.returncode == 0)
  shutil.rmtree(meta, ignore_errors=True)
  return r


def require_clean(r, what):
  """TLC must have finished without any error for a design-level run to count."""
  if r.returncode != 0 and r.violated is None:
    tail = '\n'.join(r.stdout.splitlines()[-25:])
    raise MachineryError('TLC failed on %s (exit %s):\n%s' % (what, r.returncode, tail))


def sany(module_path):
  cmd = ['java', '-cp', TLA_JAR + ':' + CM_JAR, 'tla2sany.SANY', module_path]
  p = subprocess.run(cmd, cwd=os.path.dirname(module_path), stdout=subprocess.PIPE,
                     stderr=subprocess.STDOUT, text=True)
  ok = p.returncode == 0 and 'Semantic errors' not in p.stdout and 'Parse Error' not in p.stdout \
      and 'Fatal errors' not in p.stdout and '*** Errors' not in p.stdout
  return ok, p.stdout
