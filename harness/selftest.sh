#!/bin/sh
# Re-introduces every repaired defect (reverts each fix: commit in a scratch worktree) and shows that the owning check
# turns red.  Usage: harness/selftest.sh   (prints one line per fix; takes ~20 min)
cd /verif || exit 2
while read commit check what; do
  out=$(harness/revert_test.sh $commit $check quick 2>&1 | grep -E "VIOLATION|OK tier|MACHINERY|revert failed" | head -1 | cut -c1-120)
  case "$out" in
    VIOLATION*) verdict=RED ;;
    *) verdict="NOT-RED ($out)" ;;
  esac
  echo "$commit $check $verdict  # $what"
done <<LIST
7855d2a C08 tests_ok cache not invalidated
2823404 C10 second search_results() TypeError
88a4505 C09 exhaustive IndexError on empty size range
bcd9b8e C09 greedy ZeroDivisionError on empty treatment group
c069a60 C02 greedy ignores budget in the final filter
ec1db9f C10 greedy writes size ranges into caller parameters
7389ef5 C01 n_geos_max drops must-include geos
5833846 C15 eligibility table exceeding the data TypeError
27c42c7 C19 TBRDiagnostics.fit TypeError on every input
83b3182 C17 inf integer parameter OverflowError
eaff290 C16 get_eligible_assignments(geos=[])
fdc3243 C06 summary estimate inf with three pre-period points
9804188 C18 effect-series report with unassigned periods / partial unassigned geos
21b1ab1 C07 variable-cost estimate outside [lower, upper]
da67930 C09 integer-valued float parameters crash the searches
cee3f56 C18 TBRiROAS reports with declared column names KeyError
bd4ec18 C09 greedy search TypeError for n_test >= 98
450d608 C18 effect-series report with a longer history of unassigned geos
LIST
