"""./check <ID> [--tier quick|thorough] [--replay PATH] [--seed N]"""
import argparse
import importlib
import json
import os
import sys
import traceback

from harness import core
from harness.tlc import MachineryError


def main(argv=None):
  ap = argparse.ArgumentParser()
  ap.add_argument('prop')
  ap.add_argument('--tier', default=os.environ.get('VERIF_TIER') or 'quick', choices=['quick', 'thorough'])
  ap.add_argument('--seed', type=int, default=None)
  ap.add_argument('--replay', default=None)
  args = ap.parse_args(argv)
  seed = args.seed
  if seed is None:
    try:
      seed = int(os.environ.get('VERIF_SEED', '') or 20261001)
    except ValueError:
      seed = 20261001
  prop = args.prop.upper()
  if prop == 'SELFTEST':
    from harness import selftest
    return selftest.main(args.tier, seed)
  if prop == 'EXTRAS':
    from harness import extras
    return extras.main(args.tier, seed)
  try:
    mod = importlib.import_module('harness.checks.' + prop.lower())
  except ImportError as e:
    print('MACHINERY-FAILURE: no check for %s (%s)' % (prop, e))
    return 2
  core.use_repo()
  res = core.CheckResult(prop, args.tier, seed)
  try:
    if args.replay:
      with open(args.replay) as f:
        case = json.load(f)
      mod.replay(res, case)
    else:
      mod.run(res)
  except MachineryError as e:
    if not res.violations:
      print('MACHINERY-FAILURE: property=%s %s' % (prop, e))
      return 2
    # violations already found are a verdict; a vacuity guard tripping afterwards must not mask them
    print('note: %s (raised after %d violation(s) had been found)' % (e, len(res.violations)))
  except Exception:  # pylint: disable=broad-except
    traceback.print_exc()
    print('MACHINERY-FAILURE: property=%s unexpected harness exception' % prop)
    return 2
  known_keys = {f['key']: f for f in core.findings_for(prop)}
  real = []
  known_hit = {}
  for v in res.violations:
    key = getattr(v, 'finding_key', None)
    if key is not None and key in known_keys:
      known_hit.setdefault(key, []).append(v)
    else:
      real.append(v)
  for key, vs in sorted(known_hit.items()):
    res.known.append((key, known_keys[key].get('what', '')))
    print('KNOWN-FINDING: property=%s %s [%s; %d case(s) this run, e.g. %s]' % (
        prop, known_keys[key].get('what', key), key, len(vs),
        json.dumps(vs[0].case, default=str, sort_keys=True)[:300]))
  res.violations = real
  if not args.replay and core.REPO == '/repo':
    core.write_evidence(res)   # evidence only ever describes runs against /repo itself
  if real:
    seen = set()
    for v in real[:20]:
      path = core.write_replay(prop, v)
      if path in seen:
        continue
      seen.add(path)
      print('VIOLATION property=%s replay=%s' % (prop, path))
      print('  clause=%s detail=%s' % (v.clause, str(v.detail)[:500]))
    print('%s: %d violation(s)' % (prop, len(real)))
    return 1
  print('%s: OK tier=%s seed=%d states=%d transitions=%d traces=%d cases=%d wall=%.1fs' % (
      prop, args.tier, seed, res.states, res.transitions, res.traces, res.evaluations,
      __import__('time').time() - res.t0))
  return 0


if __name__ == '__main__':
  sys.exit(main())
