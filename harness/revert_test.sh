#!/bin/sh
# usage: revert_test.sh <fix-commit> <check-id> [tier]  -- runs the check against a scratch worktree with the fix reverted
WT=/tmp/wt_rev_$$
git -C /repo worktree add -q --detach $WT HEAD || exit 2
( cd $WT && git revert --no-commit "$1" >/dev/null 2>&1 ) || { echo "revert failed"; git -C /repo worktree remove --force $WT; exit 2; }
VERIF_REPO=$WT /verif/check "$2" --tier "${3:-quick}" 2>&1 | grep -v conda | grep -E "VIOLATION|OK tier|MACHINERY|KNOWN|clause=" | head -6
git -C /repo worktree remove --force $WT
