"""Deterministic fork-based parallel map (results in input order)."""
import multiprocessing
import os

_STATE = {}


def _call(args):
  idx, item = args
  return idx, _STATE['func'](item)


def pmap(func, items, nproc=None, chunksize=None):
  items = list(items)
  if nproc is None:
    nproc = min(16, os.cpu_count() or 1)
  if nproc <= 1 or len(items) < 2 * nproc:
    return [func(x) for x in items]
  _STATE['func'] = func
  ctx = multiprocessing.get_context('fork')
  if chunksize is None:
    chunksize = max(1, len(items) // (nproc * 8))
  with ctx.Pool(nproc) as pool:
    out = pool.map(_call, list(enumerate(items)), chunksize=chunksize)
  out.sort(key=lambda t: t[0])
  return [r for _, r in out]
