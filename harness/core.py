"""Shared plumbing for checks: results, evidence, known findings, replay files, repo import."""
import hashlib
import json
import os
import sys
import time

VERIF = os.path.dirname(os.path.dirname(os.path.abspath(__file__)))
REPO = os.environ.get('VERIF_REPO', '/repo')
EVIDENCE_DIR = os.path.join(VERIF, 'evidence')
REPLAY_DIR = os.path.join(VERIF, 'replays')
FINDINGS_FILE = os.path.join(VERIF, 'known_findings.json')


def use_repo():
  """Make `import matched_markets` resolve to the current working tree of /repo."""
  if REPO not in sys.path:
    sys.path.insert(0, REPO)
  for name in list(sys.modules):
    if name == 'matched_markets' or name.startswith('matched_markets.'):
      mod = sys.modules[name]
      f = getattr(mod, '__file__', '') or ''
      if not f.startswith(REPO):
        del sys.modules[name]


class Violation:

  def __init__(self, prop, clause, case, detail='', finding_key=None):
    self.prop = prop
    self.finding_key = finding_key   # set by the check's own predicate; matched against known_findings.json
    self.clause = clause      # name of the rejecting conjunct / invariant
    self.case = case          # JSON-able description of the failing input / history
    self.detail = detail

  def to_json(self):
    return {'property': self.prop, 'clause': self.clause, 'case': self.case, 'detail': self.detail}


class CheckResult:
  """Accumulates what a check covered and what it found."""

  def __init__(self, prop, tier, seed):
    self.prop = prop
    self.tier = tier
    self.seed = seed
    self.t0 = time.time()
    self.states = 0
    self.transitions = 0
    self.traces = 0
    self.evaluations = 0
    self.distinct = set()
    self.samples = []
    self.violations = []
    self.known = []           # (finding key, description) hit in this run
    self.notes = []
    self.extra = {}
    self.assumptions = []
    self.exhaustive = None
    self.rule = ''
    self.coverage_actions = {}
    self.tlc_runs = []

  def add_tlc(self, r, label):
    self.states += r.distinct
    self.transitions += max(r.generated, 0)
    self.tlc_runs.append({'label': label, 'distinct_states': r.distinct, 'states_generated': r.generated,
                          'wall_s': round(r.wall_s, 2)})
    for k, v in r.coverage.items():
      a = self.coverage_actions.setdefault(label + '.' + k, [0, 0])
      a[0] += v[0]
      a[1] += v[1]

  def sample(self, s, cap=6):
    if len(self.samples) < cap:
      self.samples.append(s)

  def note(self, s):
    if len(self.notes) < 50:
      self.notes.append(s)

  def case_seen(self, key):
    self.evaluations += 1
    self.distinct.add(key if isinstance(key, (str, int, tuple)) else json.dumps(key, sort_keys=True, default=str))

  def violate(self, clause, case, detail='', finding_key=None):
    self.violations.append(Violation(self.prop, clause, case, detail, finding_key))


def load_findings():
  if not os.path.exists(FINDINGS_FILE):
    return {'findings': [], 'fixed': []}
  with open(FINDINGS_FILE) as f:
    return json.load(f)


def findings_for(prop):
  return [f for f in load_findings().get('findings', []) if f.get('property') == prop]


def write_replay(prop, violation):
  os.makedirs(REPLAY_DIR, exist_ok=True)
  blob = json.dumps(violation.to_json(), sort_keys=True, default=str)
  h = hashlib.sha1(blob.encode()).hexdigest()[:12]
  path = os.path.join(REPLAY_DIR, '%s-%s.json' % (prop, h))
  with open(path, 'w') as f:
    json.dump(violation.to_json(), f, indent=1, sort_keys=True, default=str)
  return path


def write_evidence(res, level='model_checking', checker_cmd=None):
  os.makedirs(EVIDENCE_DIR, exist_ok=True)
  cov = {
      'states': int(res.states),
      'transitions': int(res.transitions),
      'traces_validated_against_impl': int(res.traces),
      'samples': res.samples if res.samples else ['(no sample recorded)'],
      'evaluations': int(res.evaluations),
      'distinct_nontrivial': len(res.distinct),
      'rule': res.rule,
      'tlc_runs': res.tlc_runs,
      'actions': res.coverage_actions,
      'known_findings_hit': [k for k, _ in res.known],
      'notes': res.notes,
  }
  if res.exhaustive is not None:
    cov['exhaustive'] = bool(res.exhaustive)
  cov.update(res.extra)
  ev = {
      'property_id': res.prop,
      'tier': res.tier,
      'seed': int(res.seed),
      'level': level,
      'coverage': cov,
      'assumptions': res.assumptions,
      'wall_s': round(time.time() - res.t0, 2),
      'violations': len(res.violations),
  }
  path = os.path.join(EVIDENCE_DIR, res.prop + '.json')
  with open(path, 'w') as f:
    json.dump(ev, f, indent=1, default=str)
  return path


class CallTimeout(BaseException):
  """Raised by the watchdog inside a call of the code under test (BaseException: library code must not swallow it)."""


def with_timeout(fn, seconds=150):
  """Runs fn() under a watchdog (main thread of a process only). Termination is part of several properties; a call
  that does not return is reported as an outcome instead of hanging the check.  The budget is CPU time of this
  process (ITIMER_PROF), so a loaded machine cannot turn a slow search into a reported non-termination; a wall-clock
  alarm twelve times as long covers a call that blocks without computing."""
  import signal
  import threading
  if threading.current_thread() is not threading.main_thread():
    return fn()

  def handler(signum, frame):
    raise CallTimeout()
  old_alrm = signal.signal(signal.SIGALRM, handler)
  old_prof = signal.signal(signal.SIGPROF, handler)
  signal.setitimer(signal.ITIMER_PROF, float(seconds))
  signal.alarm(int(seconds) * 12)
  try:
    return fn()
  finally:
    signal.setitimer(signal.ITIMER_PROF, 0.0)
    signal.alarm(0)
    signal.signal(signal.SIGPROF, old_prof)
    signal.signal(signal.SIGALRM, old_alrm)
