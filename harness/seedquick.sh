#!/bin/sh
# usage: seedquick.sh <seed dir name under /verif/seeded or /tmp/seedout>... : applies each stored patch in a scratch
# worktree of /repo HEAD and runs the QUICK tier of the owning check against it (no baseline tests, no demo).
for name in "$@"; do
  case "$name" in *:*) chk=${name#*:}; name=${name%%:*};; *) chk="";; esac
  d=/verif/seeded/$name; [ -d "$d" ] || d=/tmp/seedout/$name
  id=$(echo "$name" | cut -c1-3); [ -n "$chk" ] && id=$chk
  WT=/tmp/wt_sq_$$_$name
  git -C /repo worktree add -q --detach $WT HEAD || { echo "$name worktree failed"; continue; }
  if git -C $WT apply "$d/patch.diff" 2>/dev/null || git -C $WT apply --3way "$d/patch.diff" 2>/dev/null; then
    out=$(VERIF_REPO=$WT /verif/check $id --tier quick 2>&1 | grep -v conda | grep -E "VIOLATION|OK tier|MACHINERY" | head -1 | cut -c1-150)
    echo "$name $out"
  else
    echo "$name patch does not apply"
  fi
  git -C /repo worktree remove --force $WT
  rm -rf /verif/run/*_alt_$(basename $WT)
done
