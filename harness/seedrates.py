"""python -m harness.seedrates <VERIF_SEED>... : for every stored seeded change, applies it in a scratch worktree and runs
the owning check's quick tier with each given VERIF_SEED. Prints one line per (change, seed): caught / MISSED."""
import json
import os
import subprocess
import sys

HOOK = 'd74490a'


def sh(cmd):
  return subprocess.run(cmd, shell=True, stdout=subprocess.PIPE, stderr=subprocess.STDOUT, text=True)


def main():
  seeds = sys.argv[1:] or ['1']
  only = os.environ.get('ONLY')
  for name in sorted(os.listdir('/verif/seeded')):
    d = os.path.join('/verif/seeded', name)
    if only and not name.startswith(only):
      continue
    meta = json.load(open(os.path.join(d, 'meta.json')))
    if 'NOT caught, deliberately' in meta.get('detection', {}).get('note', ''):
      continue
    wt = '/tmp/wt_rate_%d' % os.getpid()
    sh('git -C /repo worktree add -q --detach %s HEAD' % wt)
    r = sh('git -C %s apply %s/patch.diff' % (wt, d))
    if r.returncode:
      r = sh('git -C %s apply --3way %s/patch.diff' % (wt, d))
    if r.returncode:
      sh('git -C /repo worktree remove --force %s' % wt)
      sh('git -C /repo worktree add -q --detach %s %s^' % (wt, HOOK))
      r = sh('git -C %s apply %s/patch.diff' % (wt, d))
    if r.returncode:
      print(name, 'PATCH DOES NOT APPLY', flush=True)
      sh('git -C /repo worktree remove --force %s' % wt)
      continue
    for s in seeds:
      r = sh('VERIF_SEED=%s VERIF_REPO=%s /verif/check %s --tier quick' % (s, wt, meta['property']))
      verdict = 'caught' if r.returncode == 1 else ('MISSED' if r.returncode == 0 else 'MACHINERY(%d)' % r.returncode)
      print(name, 'seed', s, verdict, flush=True)
    sh('git -C /repo worktree remove --force %s' % wt)
    sh('rm -rf /verif/run/*_alt_%s; rm -f /verif/replays/*.json' % os.path.basename(wt))


if __name__ == '__main__':
  main()
