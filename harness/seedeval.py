"""Evaluates a seeded change: python -m harness.seedeval <dir with patch.diff, demo.py, meta.json> [check ids...]

1. scratch worktree of /repo HEAD + patch  2. baseline stable tests still pass  3. demo.py fails with / passes without
4. runs the named checks (default: the property in meta.json) against the patched tree, quick then thorough if missed.
Prints a JSON summary; the worktree is removed afterwards.
"""
import json
import os
import subprocess
import sys
import time
import xml.etree.ElementTree as ET

BASE = json.load(open('/root/.vp/BASELINE.json'))
HOOK_COMMIT = 'd74490a'


def sh(cmd, **kw):
  return subprocess.run(cmd, shell=True, stdout=subprocess.PIPE, stderr=subprocess.STDOUT, text=True, **kw)


def main():
  d = os.path.abspath(sys.argv[1])
  meta = json.load(open(os.path.join(d, 'meta.json'))) if os.path.exists(os.path.join(d, 'meta.json')) else {}
  checks = sys.argv[2:] or [meta.get('property')]
  wt = '/tmp/wt_seed_%d' % os.getpid()
  out = {'dir': d, 'property': meta.get('property')}
  r = sh('git -C /repo worktree add -q --detach %s HEAD' % wt)
  try:
    r = sh('git -C %s apply %s' % (wt, os.path.join(d, 'patch.diff')))
    if r.returncode != 0:
      # the patch was written against an earlier HEAD (before the add-only hook commit): merge it
      r = sh('git -C %s apply --3way %s' % (wt, os.path.join(d, 'patch.diff')))
      out['applied_3way'] = True
    if r.returncode != 0:
      # still conflicting with the hook lines: evaluate on the parent of the hook commit (fix commits only)
      sh('git -C /repo worktree remove --force %s' % wt)
      sh('git -C /repo worktree add -q --detach %s %s^' % (wt, HOOK_COMMIT))
      r = sh('git -C %s apply %s' % (wt, os.path.join(d, 'patch.diff')))
      out['applied_on_pre_hook_base'] = True
    out['applies'] = r.returncode == 0
    if not out['applies']:
      out['apply_error'] = r.stdout[-500:]
      return out
    junit = '/tmp/junit_%d.xml' % os.getpid()
    sh('cd %s && env -u GOOGLE_MATCHED_MARKETS_VERIF PYTHONPATH=%s /venv/bin/python -m pytest -q -p no:cacheprovider --timeout=900 '
       '--continue-on-collection-errors --junitxml=%s matched_markets/tests' % (wt, wt, junit))
    res = {}
    for tc in ET.parse(junit).iter('testcase'):
      res[tc.get('classname') + '::' + tc.get('name')] = not any(c.tag in ('failure', 'error', 'skipped') for c in tc)
    os.remove(junit)
    broken = [n for n in BASE['stable_pass'] if not res.get(n)]
    out['baseline_tests_broken'] = broken
    demo = os.path.join(d, 'demo.py')
    if os.path.exists(demo):
      a = sh('cd /tmp && PYTHONPATH=%s timeout 300 /venv/bin/python %s' % (wt, demo))
      b = sh('cd /tmp && PYTHONPATH=/repo timeout 300 /venv/bin/python %s' % demo)
      out['demo_with_change_exit'] = a.returncode
      out['demo_without_change_exit'] = b.returncode
      out['demo_output'] = a.stdout.replace('\n', ' | ')[-400:]
    out['checks'] = {}
    for c in checks:
      for tier in ('quick', 'thorough'):
        t0 = time.time()
        r = sh('VERIF_REPO=%s /verif/check %s --tier %s' % (wt, c, tier))
        lines = [l for l in r.stdout.splitlines() if 'VIOLATION' in l or 'clause=' in l or 'MACHINERY' in l or 'OK tier' in l]
        out['checks']['%s.%s' % (c, tier)] = {'exit': r.returncode, 'wall_s': round(time.time() - t0), 'lines': lines[:4]}
        if r.returncode == 1:
          break
    sh('rm -f /verif/replays/*.json; rm -rf /verif/run/*_alt_%s' % os.path.basename(wt))
    return out
  finally:
    sh('git -C /repo worktree remove --force %s' % wt)
    print(json.dumps(out, indent=1))


if __name__ == '__main__':
  main()
