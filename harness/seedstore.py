"""python -m harness.seedstore <src dir> : evaluates a seeded change (harness.seedeval) and files it under /verif/seeded/<name>/."""
import json
import os
import shutil
import subprocess
import sys


def main():
  for src in sys.argv[1:]:
    src = os.path.abspath(src)
    name = os.path.basename(src.rstrip('/'))
    out = subprocess.run(['/venv/bin/python', '-m', 'harness.seedeval', src], stdout=subprocess.PIPE, text=True, cwd='/verif').stdout
    ev = json.loads(out[out.index('{'):])
    ok = ev.get('applies') and not ev.get('baseline_tests_broken') and ev.get('demo_with_change_exit') == 1 and \
        ev.get('demo_without_change_exit') == 0
    if not ok:
      print(name, 'NOT CONFIRMED', {k: ev.get(k) for k in ('applies', 'baseline_tests_broken', 'demo_with_change_exit', 'demo_without_change_exit')})
      continue
    dst = os.path.join('/verif/seeded', name)
    os.makedirs(dst, exist_ok=True)
    for f in ('patch.diff', 'demo.py'):
      shutil.copy(os.path.join(src, f), os.path.join(dst, f))
    meta = json.load(open(os.path.join(src, 'meta.json')))
    caught = [k for k, v in ev['checks'].items() if v['exit'] == 1]
    meta['confirmed'] = {
        'applies_to_repo_head': True, 'existing_stable_tests_still_pass': True,
        'demo_exit_with_change': 1, 'demo_exit_without_change': 0,
        'evaluated_on': 'parent of the hook commit' if ev.get('applied_on_pre_hook_base') else 'HEAD',
        'what_was_run': 'python -m harness.seedeval (scratch worktree + git apply; baseline pytest with the guard off; demo.py '
                        'with and without the change; ./check <property> quick then thorough against the patched tree via VERIF_REPO)',
    }
    meta['detection'] = {'caught_by': caught, 'runs': ev['checks']}
    json.dump(meta, open(os.path.join(dst, 'meta.json'), 'w'), indent=1)
    print(name, 'stored; caught by', caught or 'NOTHING')


if __name__ == '__main__':
  main()
