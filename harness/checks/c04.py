"""C04 - see DESIGN.md section 4. Decided by MMTrace.tla on traces recorded by the shared search driver (harness/mm.py)
plus the design-level models (harness/mmdesign.py)."""
from harness import mm
from harness import mmdesign

OWNER = 'C04'


DIAG_REUSE_CFG = """SPECIFICATION Spec
CONSTANTS Groups = {"g1", "g2", "g3"}
 MaxObjs = %d
 Fixes = %s
INVARIANT DiagBelongsToDesign
"""


def diag_reuse(res):
  """Design level: one diagnostics object is re-pointed per control group, stored designs hold deep copies
  (DiagReuse.tla). The aliasing variant (no copy) must still produce the counterexample."""
  from harness import tlc
  r = tlc.run_tlc('DiagReuse', DIAG_REUSE_CFG % (6 if res.tier == 'thorough' else 5, '{"copy"}'), tlc.run_dir('C04_diagreuse'),
                  workers=8)
  tlc.require_clean(r, 'DiagReuse')
  if r.violated:
    raise tlc.MachineryError('DiagReuse (deep copies, the current code) violates %s' % r.violated)
  res.add_tlc(r, 'DiagReuse')
  r0 = tlc.run_tlc('DiagReuse', DIAG_REUSE_CFG % (5, '{}'), tlc.run_dir('C04_diagreuse_alias'), workers=1)
  if r0.violated != 'DiagBelongsToDesign':
    raise tlc.MachineryError('DiagReuse without the copy no longer yields the aliasing counterexample')
  res.extra['aliasing_variant_counterexample_length'] = len(r0.error_trace)


def run(res):
  diag_reuse(res)
  mmdesign.run_design_level(res, OWNER)
  insts, verdicts, stats = mm.run_search_clauses(res, OWNER)
  mm.vacuity_guard(res, OWNER, stats)
  # panels of 7-14 geos (greedy only): the clauses about returned designs, judged by MMTraceLite.tla
  mm.run_large_greedy(res, OWNER)
  mm.describe(res, OWNER)


def replay(res, blob):
  mm.replay_case(res, blob)
