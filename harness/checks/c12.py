"""C12 - search results are invariant to how the input is presented.

Abstract instances (generic position: no float threshold within 1e-9, no two designs with equal score tuple) are run
under several presentations; each result is projected back to the abstract instance; MMPresent.tla decides the memo
invariant (every presentation gives the first presentation's abstract answer) and names the failing clauses.
"""
import copy
import json
import os
import random

from harness import mm
from harness import oracle
from harness import par as par_mod
from harness import tlc


def variants_for(inst, rng):
  ids = mm.geo_ids(inst)
  n = inst['n']
  perm = list(range(n))
  rng.shuffle(perm)
  renamed = [ids[perm[g]] for g in range(n)]
  fresh_names = ['zz%02d' % rng.randint(0, 99) + chr(97 + g) for g in range(n)]
  rng.shuffle(fresh_names)
  out = [('base', {}),
         ('rows_shuffled', {'shuffle': 1 + rng.randint(0, 10 ** 6)}),
         ('dates_shifted', {'date_shift': rng.choice([-400, -31, 1, 59, 366, 1000])}),
         ('ids_as_strings', {'ids_as_str': True}),
         ('renamed_permutation', {'ids': renamed, 'shuffle': 7}),
         ('renamed_fresh', {'ids': fresh_names}),
         # names as they come out of fixed-width exports: blanks around them are part of the name
         ('renamed_padded', {'ids': [('  %s' if g % 2 else '%s ') % nm for g, nm in enumerate(fresh_names)]}),
         ('scaled', {'scale': rng.choice([0.25, 2.0, 8.0])}),
         ('split_records', {'split_records': 1 + rng.randint(0, 3)}),
         ('split_records_shuffled', {'split_records': 1 + rng.randint(0, 3), 'shuffle': 1 + rng.randint(0, 10 ** 6)}),
         ('eligibility_indexed_by_geo', {'elig_geo_as_index': True}),
         ('table_rows_reversed', {'reverse_table_rows': True}),
         ('date_by_date_varying_geo_order', {'date_major': True, 'shuffle': 1 + rng.randint(0, 10 ** 6)}),
         ('scaled_tiny', {'scale': 2.0 ** -rng.choice([10, 14, 16])}),
         ('scaled_huge', {'scale': 2.0 ** rng.choice([10, 14])}),
         ('scaled_shifted_shuffled', {'scale': rng.choice([0.5, 4.0, 16.0]), 'date_shift': 17, 'shuffle': 99})]
  if inst['ids_kind'] != 'int':
    # string IDs that look like integers in another order
    nums = rng.sample(range(1, 60), n)
    out.append(('renamed_numeric', {'ids': [str(x) for x in nums]}))
    out.append(('renamed_numeric_as_int', {'ids': nums}))
  return out


def raw_search(inst, which, variant):
  scale = variant.get('scale', 1.0)
  try:
    from matched_markets.methodology import tbrmatchedmarkets
    data, par, ids = mm.build_objects(inst, dict(variant))
    mmo = tbrmatchedmarkets.TBRMatchedMarkets(data, par)
    from harness import core
    try:
      res = core.with_timeout(lambda: mmo.exhaustive_search() if which == 'exh' else mmo.greedy_search(), 150)
    except core.CallTimeout:
      return {'status': 'crash:DidNotReturnWithin150s', 'designs': []}
    num = {str(i): g + 1 for g, i in enumerate(ids)}
    budget_rule = which == 'exh' and inst['budget'] is not None
    designs = []
    for d in res:
      sc = tuple(d.score.score)
      designs.append({'t': sorted(num.get(str(x), 0) for x in d.treatment_geos),
                      'c': sorted(num.get(str(x), 0) for x in d.control_geos),
                      'tests': [int(sc[0]), int(sc[1]), int(sc[2]), int(sc[3]), int(bool(d.diag.tests_ok))],
                      'corr100': int(round(float(sc[4]) * 100)),
                      'impact': float(d.diag.required_impact) / scale,
                      'last': float(sc[5]) * (1.0 if budget_rule else scale)})
    return {'status': 'ok', 'designs': designs}
  except ValueError:
    return {'status': 'valueerror', 'designs': []}
  except Exception as e:  # pylint: disable=broad-except
    return {'status': 'crash:' + type(e).__name__, 'designs': []}


def project_raw(inst, res, which, ids, scale):
  num = {str(i): g + 1 for g, i in enumerate(ids)}
  budget_rule = which == 'exh' and inst['budget'] is not None
  designs = []
  for d in res:
    sc = tuple(d.score.score)
    designs.append({'t': sorted(num.get(str(x), 0) for x in d.treatment_geos),
                    'c': sorted(num.get(str(x), 0) for x in d.control_geos),
                    'tests': [int(sc[0]), int(sc[1]), int(sc[2]), int(sc[3]), int(bool(d.diag.tests_ok))],
                    'corr100': int(round(float(sc[4]) * 100)),
                    'impact': float(d.diag.required_impact) / scale,
                    'last': float(sc[5]) * (1.0 if budget_rule else scale)})
  return {'status': 'ok', 'designs': designs}


def side_by_side(inst, va, vb):
  """Two presentations alive at the same time, used in turns (build A, build B, count both, search A, search B, ...)."""
  from matched_markets.methodology import tbrmatchedmarkets
  out = []
  try:
    objs = []
    for v in (va, vb):
      data, par, ids = mm.build_objects(inst, dict(v))
      objs.append((tbrmatchedmarkets.TBRMatchedMarkets(data, par), ids, v.get('scale', 1.0)))
    for m, _, _ in objs:
      m.count_max_designs()
    results = [{}, {}]
    for which in ('exh', 'greedy'):
      for k, (m, ids, scale) in enumerate(objs):
        try:
          r = m.exhaustive_search() if which == 'exh' else m.greedy_search()
          results[k][which] = project_raw(inst, r, which, ids, scale)
        except ValueError:
          results[k][which] = {'status': 'valueerror', 'designs': []}
        except Exception as e:  # pylint: disable=broad-except
          results[k][which] = {'status': 'crash:' + type(e).__name__, 'designs': []}
    return results
  except ValueError:
    r = {'status': 'valueerror', 'designs': []}
    return [{'exh': r, 'greedy': r}, {'exh': r, 'greedy': r}]
  except Exception as e:  # pylint: disable=broad-except
    r = {'status': 'crash:' + type(e).__name__, 'designs': []}
    return [{'exh': r, 'greedy': r}, {'exh': r, 'greedy': r}]


def run_group(args):
  inst, variants = args
  out = []
  for name, v in variants:
    out.append({'name': name, 'variant': {k: (val if k != 'ids' else list(val)) for k, val in v.items()},
                'exh': raw_search(inst, 'exh', v), 'greedy': raw_search(inst, 'greedy', v)})
  # the base presentation and the last (scaled, shifted, shuffled) one side by side in one process
  names = [n for n, _ in variants]
  if 'scaled_shifted_shuffled' in names:
    vb = dict(variants[names.index('scaled_shifted_shuffled')][1])
    ra, rb = side_by_side(inst, {}, vb)
    out.append({'name': 'base_beside_scaled', 'variant': {'beside': vb}, 'exh': ra['exh'], 'greedy': ra['greedy']})
    out.append({'name': 'scaled_beside_base', 'variant': {'beside_base': True, **vb}, 'exh': rb['exh'], 'greedy': rb['greedy']})
  return out


def value_ids(values):
  """Equal-within-1e-9 classes -> small ints (the only float judgement made outside TLA+)."""
  reps = []
  ids = []
  for v in values:
    for i, r in enumerate(reps):
      if v == r or abs(v - r) <= 1e-9 * max(abs(v), abs(r)):
        ids.append(i + 1)
        break
    else:
      reps.append(v)
      ids.append(len(reps))
  return ids


def to_tla(gid, runs):
  vals_i, vals_l = [], []
  for r in runs:
    for w in ('exh', 'greedy'):
      for d in r[w]['designs']:
        vals_i.append(d['impact'])
        vals_l.append(d['last'])
  ii, li = value_ids(vals_i), value_ids(vals_l)
  k = 0
  variants = []
  for r in runs:
    rec = {}
    for w in ('exh', 'greedy'):
      ds = []
      for d in r[w]['designs']:
        ds.append({'t': d['t'], 'c': d['c'], 'tests': d['tests'], 'corr100': d['corr100'], 'impactId': ii[k], 'lastId': li[k]})
        k += 1
      rec[w] = {'status': r[w]['status'], 'designs': ds}
    variants.append(rec)
  return {'id': gid, 'variants': variants}


def judge(res, groups, label):
  rundir = tlc.run_dir('C12_' + label)
  path = os.path.join(rundir, 'groups.json')
  with open(path, 'w') as f:
    json.dump({'groups': groups}, f)
  r = tlc.run_tlc('MMPresent', 'SPECIFICATION Spec\n', rundir, workers=1, env={'TRACE_FILE': path}, timeout=3000)
  tlc.require_clean(r, 'MMPresent')
  res.add_tlc(r, 'MMPresent.' + label)
  verdicts = {v['id']: v for v in r.json_lines() if isinstance(v, dict) and 'fails' in v}
  if len(verdicts) != len(groups):
    raise tlc.MachineryError('MMPresent judged %d of %d instances' % (len(verdicts), len(groups)))
  return verdicts


def tie_free(inst):
  ranks = list(inst['tab']['ranks'].values())
  return len(set(ranks)) == len(ranks)


def run(res):
  thorough = res.tier == 'thorough'
  count = 700 if thorough else 240
  rng = random.Random(res.seed * 17 + 12)
  insts = mm.make_instances(res.seed + 12, 'C03', int(count * 1.4), nmax_geos=5)
  for k, i in enumerate(insts):
    i['partner'] = None
    i['decoy'] = False
    i['perturb_after'] = False
    if i['extra_elig_row'] not in (False, 'optional'):
      i['extra_elig_row'] = False
    if k % 2 == 0:       # budget bounds placed at quantiles of the designs' own required budgets
      i['want_budget'] = True
      i['budget_mode'] = ['low_half', 'middle', 'high'][(k // 2) % 3]
  insts = par_mod.pmap(mm._prep, insts)
  kept = [i for i in insts if i['tab'] is not None and i['tab']['margin'] >= oracle.REL and tie_free(i)][:count]
  res.extra['dropped_nongeneric_or_tied'] = len(insts) - len(kept)
  jobs = [(i, variants_for(i, rng)) for i in kept]
  # panels with TWIN geos (one region reported as two identical halves): scores tie exactly, and which twin a search
  # takes is not specified - but it must not depend on whether the IDs arrive as integers or as strings, nor on the
  # order of the rows.  Only those presentations are compared on these panels.
  twins = []
  for i in kept:
    if len(twins) >= (100 if thorough else 24):
      break
    if i['n'] > 4 or i['n'] < 2:
      continue
    t = {k: copy.deepcopy(v) for k, v in i.items() if k not in ('tab', 'exh', 'greedy')}
    n = t['n']
    t['id'] = 900000 + i['id']
    t['n'] = n + 1
    for (g, d), v in list(t['cells'].items()):
      if g == 1:
        t['cells'][(n + 1, d)] = v
    t['elig'] = list(t['elig']) + [t['elig'][0]]
    t['ids_kind'] = 'int_twin'
    t['budget'] = None
    t['want_budget'] = False
    t['extra_elig_row'] = False
    t['family'] = i['family'] + '+twin'
    twins.append(t)
  jobs += [(t, [('base', {}), ('ids_as_strings', {'ids_as_str': True}),
                ('ids_as_strings_shuffled', {'ids_as_str': True, 'shuffle': 1 + t['id'] % 1000})]) for t in twins]
  kept = kept + twins
  runs = par_mod.pmap(run_group, jobs, chunksize=1)
  groups = [to_tla(i['id'], r) for i, r in zip(kept, runs)]
  verdicts = judge(res, groups, 'memo')
  nonempty = 0
  kinds = {}
  for inst, r in zip(kept, runs):
    v = verdicts[inst['id']]
    res.case_seen(('inst', inst['id']))
    res.traces += len(r)
    nonempty += bool(r[0]['exh']['designs'] or r[0]['greedy']['designs'])
    for x in r:
      kinds[x['name']] = kinds.get(x['name'], 0) + 1
    if v['fails'] and len(res.violations) < 25:
      culprit = r[v['variants'][0] - 1]
      res.violate(v['fails'][0], {'kind': 'presentation', 'instance': mm.public(inst),
                                  'variants': [(x['name'], x['variant']) for x in r], 'failing_variant': culprit['name']},
                  'clauses %r; base: exh=%s greedy=%s; %s: exh=%s greedy=%s' % (
                      v['fails'], [(d['t'], d['c']) for d in r[0]['exh']['designs']], [(d['t'], d['c']) for d in r[0]['greedy']['designs']],
                      culprit['name'], [(d['t'], d['c']) for d in culprit['exh']['designs']] or culprit['exh']['status'],
                      [(d['t'], d['c']) for d in culprit['greedy']['designs']] or culprit['greedy']['status']))
  if nonempty < 5:
    raise tlc.MachineryError('vacuous: only %d instances returned designs' % nonempty)
  res.extra['instances'] = len(kept)
  res.extra['instances_with_designs'] = nonempty
  res.extra['presentations_run'] = kinds
  res.sample({'instance': {k: v for k, v in mm.public(kept[0]).items() if k != 'cells'},
              'presentations': [(x['name'], x['variant']) for x in runs[0]],
              'abstract_answer': groups[0]['variants'][0]})
  res.exhaustive = False
  res.rule = ('%d abstract instances (generic position, tie-free) x 8-10 presentations (row shuffle, date shift, int/str IDs, '
              'ID permutation / fresh names, scale by powers of two with the budget range scaled alike); distinct = abstract '
              'instances; non-trivial = instances returning designs (instances_with_designs)') % len(kept)
  res.assumptions += ['instances with two designs of equal score tuple, or within 1e-9 of a float threshold, are excluded '
                      '(a tie-break is not a presentation dependence)',
                      'impact-based floats are compared after undoing the scale, equal within 1e-9 (value-class ids)']


def replay(res, blob):
  c = blob['case']
  inst = mm.attach_oracle(mm.from_public(c['instance']))
  variants = [(n, {k: (v if k != 'ids' else list(v)) for k, v in var.items()}) for n, var in c['variants']
              if n not in ('base_beside_scaled', 'scaled_beside_base')]
  runs = run_group((inst, variants))
  verdicts = judge(res, [to_tla(inst['id'], runs)], 'replay')
  res.traces += len(runs)
  res.case_seen('replay')
  v = verdicts[inst['id']]
  if v['fails']:
    res.violate(v['fails'][0], c, 'still rejected: %r' % v['fails'])
