"""C10 - the search API has no hidden state: answers do not depend on call history.

MMApi.tla generates the call histories (all of them up to a length, plus TLC-simulated longer ones) over the public
query / search / retrieval methods of ONE object and predicts each answer as "what a fresh object answers" (or the last
search's list, or the error a fresh object gives). Each history is stepped through one real object; after every call the
projected answer is compared with the prediction, and the caller's parameter object and input frame are compared with
their state at construction. The pre-repair variants of the model must still expose D2 / D3.
"""
import dataclasses
import random

from harness import mm
from harness import mmdesign
from harness import par as par_mod
from harness import tlc

CFG = """SPECIFICATION Spec
CONSTANTS Fixes = %s
 MaxLen = %d
INVARIANT Memo
INVARIANT AnswersCurrentConfiguration
INVARIANT ErrorOnlyWithoutSearch
INVARIANT RetrievalAfterSearchSucceeds
INVARIANT ParamsUntouched
%s
"""
SETQ = ['geos_over_budget', 'geos_too_large', 'geos_must_include', 'geos_within_constraints']


def designs_out(lst):
  return [(sorted(map(str, d.treatment_geos)), sorted(map(str, d.control_geos)), tuple(float(x) for x in d.score.score),
           float(d.diag.corr), float(d.diag.required_impact)) for d in lst]


def scribble(obj):
  """What a call returns belongs to the caller: the set / list handed back is emptied in place after it has been read
  (the designs inside a result list are left alone).  Later answers must not notice."""
  if isinstance(obj, (set, list)):
    obj.clear()


def do_call(mmo, name):
  """Performs one public call (under a watchdog); the answer is a JSON-able projection, exceptions are answers."""
  from harness import core
  try:
    return core.with_timeout(lambda: _do_call(mmo, name), 150)
  except core.CallTimeout:
    return ('error', 'DidNotReturnWithin150s')


def _do_call(mmo, name):
  try:
    if name in SETQ:
      got = getattr(mmo, name)
      out = ('ok', sorted(map(str, got)))
      scribble(got)
      return out
    if name == 'geo_assignments':
      ga = mmo.geo_assignments
      return ('ok', {f.name: sorted(getattr(ga, f.name)) for f in dataclasses.fields(ga)}, list(map(str, mmo.data.geo_index)))
    if name == 'treatment_group_size_range':
      return ('ok', list(mmo.treatment_group_size_range()))
    if name == 'count_max_designs':
      return ('ok', int(mmo.count_max_designs()))
    if name in ('treatment_groups', 'control_groups', 'treatment_groups_first', 'control_groups_first'):
      sizes = list(mmo.treatment_group_size_range())
      n = sizes[0] if sizes else 1
      if name == 'treatment_groups_first':
        gen = mmo.treatment_group_generator(n)
        first = next(gen, None)          # the rest of the listing is abandoned
        out = ('ok', None if first is None else sorted(first))
        scribble(first)
        return out
      raw = list(mmo.treatment_group_generator(n))
      groups = [sorted(g) for g in raw]
      first = set(groups[0]) if groups else set()
      for g in raw:
        scribble(g)
      if name == 'treatment_groups':
        return ('ok', groups)
      if name == 'control_groups_first':
        gen = mmo.control_group_generator(first)
        c = next(gen, None)
        out = ('ok', None if c is None else sorted(c))
        scribble(c)
        return out
      raw = list(mmo.control_group_generator(first))
      out = ('ok', [sorted(c) for c in raw])
      for c in raw:
        scribble(c)
      return out
    if name in ('exh', 'greedy', 'search_results'):
      got = mmo.exhaustive_search() if name == 'exh' else (mmo.greedy_search() if name == 'greedy' else mmo.search_results())
      out = ('ok', designs_out(got))
      scribble(got)
      return out
    raise KeyError(name)
  except Exception as e:  # pylint: disable=broad-except
    return ('error', type(e).__name__)


CALLS = SETQ + ['geo_assignments', 'treatment_group_size_range', 'count_max_designs', 'treatment_groups',
                'control_groups', 'treatment_groups_first', 'control_groups_first', 'exh', 'greedy', 'search_results']


def fresh_object(inst, preindex=False):
  """preindex: the data object has been used before the searcher is built (geo index set, aggregates read) - the
  reference answers always come from objects built from untouched data."""
  from matched_markets.methodology import tbrmatchedmarkets
  keep = {}
  data, par, ids = mm.build_objects(inst, {'keep': keep, 'preindex': preindex})
  return tbrmatchedmarkets.TBRMatchedMarkets(data, par), par, keep['df']


RECONFIGURED = ('n_designs', 'geo_ratio_tolerance', 'treatment_geos_range', 'control_geos_range')


def config_b(inst):
  """The other set of values of the call-time fields (spec: cfg = "B"): another result cap, the geo-ratio tolerance
  switched on / off, the size ranges switched on / off."""
  b = {k: v for k, v in inst.items() if k != 'fresh'}
  b['par'] = dict(inst['par'])
  b['par']['n_designs'] = inst['par']['n_designs'] + 1
  b['gtol'] = (0, 0) if inst['gtol'][1] else (1, 1)
  b['tr'] = (0, 0) if inst['tr'][1] else (1, 2)
  b['cr'] = (0, 0) if inst['cr'][1] else (1, 3)
  return b


def fresh_answers(inst):
  out = {}
  for c in CALLS:
    mmo, _, _ = fresh_object(inst)
    out[c] = do_call(mmo, c)
  return out


def replay_history(args):
  inst, fresh, hist = args
  cfgs = {'A': inst, 'B': inst['cfg_b']}
  try:
    mmo, par, df = fresh_object(inst, preindex=(len(hist) + len(hist[0]['call'])) % 2 == 0)
    pars = {'A': fresh_object(inst)[1], 'B': fresh_object(cfgs['B'])[1]}
  except Exception as e:  # pylint: disable=broad-except
    return ('Construction', '%s: %s' % (type(e).__name__, e), 0)
  par0 = dataclasses.asdict(par)
  df0 = df.copy(deep=True)
  for step, ev in enumerate(hist, start=1):
    if ev['call'] == 'reconfigure':
      # the caller's own step: it assigns the other values to the call-time fields of ITS parameter object
      cur = 'B' if all(getattr(par, f) == getattr(pars['A'], f) for f in RECONFIGURED) else 'A'
      for f in RECONFIGURED:
        setattr(par, f, getattr(pars[cur], f))
      par0 = dataclasses.asdict(par)
      continue
    got = do_call(mmo, ev['call'])
    pred = ev['answer']
    if pred in ('fresh_A', 'fresh_B'):
      want = fresh[pred[-1]][ev['call']]
    elif pred == 'error':
      want = fresh['A']['search_results']
    elif pred.startswith('last_'):
      want = fresh[pred[-1]][pred[5:-2]]
    else:
      return ('SpecPrediction', 'unexpected prediction %r' % pred, step)
    if got != want:
      clause = 'RetrievalReturnsLastSearch' if ev['call'] == 'search_results' else 'AnswerEqualsFreshObject'
      return (clause, 'call %d %s after %r: got %s, a fresh object (%s) answers %s' % (
          step, ev['call'], [e['call'] for e in hist[:step - 1]], str(got)[:300], pred, str(want)[:300]), step)
    if dataclasses.asdict(par) != par0:
      return ('ParametersUnmodified', 'after call %d (%s) the caller\'s parameter object changed: %r -> %r' % (
          step, ev['call'], par0, dataclasses.asdict(par)), step)
    if not df.equals(df0) or list(df.columns) != list(df0.columns):
      return ('InputFrameUnmodified', 'after call %d (%s) the caller\'s frame changed' % (step, ev['call']), step)
  return None


SHAPES = [
    # (name, settings applied on top of a random instance)
    # a geo that may not be excluded, a truncating n_geos_max and a budget range together
    ('must_include_nmax_budget', dict(tr=(0, 0), cr=(0, 0), nmax='n-1', want_budget=True, budget_mode='wide',
                                      share=(0, 0, 0, 0), must_include=True)),
    ('tr_only_budget', dict(tr=(1, 2), cr=(0, 0), want_budget=True, budget_mode='wide', share=(0, 0, 0, 0), nmax=0)),
    ('no_ranges_ratio', dict(tr=(0, 0), cr=(0, 0), gtol=(2, 1), want_budget=False, share=(0, 0, 0, 0), nmax=0)),
    ('cr_only_share', dict(tr=(0, 0), cr=(1, 3), share=(2, 100, 90, 100), want_budget=False, nmax=0)),
    ('both_ranges_nmax', dict(tr=(1, 3), cr=(1, 3), nmax=3, want_budget=True, budget_mode='low_half', share=(0, 0, 0, 0))),
    ('plain', dict(tr=(0, 0), cr=(0, 0), gtol=(0, 0), vtol=(0, 0), want_budget=False, share=(0, 0, 0, 0), nmax=0)),
    ('volume_budget', dict(tr=(0, 0), cr=(1, 2), vtol=(4, 1), want_budget=True, budget_mode='wide', share=(0, 0, 0, 0), nmax=0)),
    ('tr_only_plain', dict(tr=(1, 3), cr=(0, 0), want_budget=False, share=(0, 0, 0, 0), nmax=0)),
    ('budget_middle', dict(tr=(0, 0), cr=(0, 0), want_budget=True, budget_mode='middle', share=(0, 0, 0, 0), nmax=0)),
]


def pick_instances(seed, count):
  """Small instances, one per parameter SHAPE (which of the size ranges are given, budget, share, n_geos_max, ...),
  each with a non-empty exhaustive AND greedy result so that history effects are observable."""
  rng = random.Random(seed * 31 + 10)
  out = []
  for k in range(count):
    name, settings = SHAPES[k % len(SHAPES)]
    for _ in range(60):
      inst = mm.gen_instance(rng, len(out) + 1, 'random', nmax_geos=4)
      if inst['n'] < 3:
        continue
      inst.update({k: v for k, v in settings.items() if k != 'must_include'})
      if inst['nmax'] == 'n-1':
        inst['nmax'] = inst['n'] - 1
      inst['budget'] = None
      inst['default_elig'] = True
      inst['elig'] = ['ctx'] * inst['n']
      if settings.get('must_include'):
        inst['default_elig'] = False
        inst['elig'][rng.randint(0, inst['n'] - 1)] = rng.choice(['ct', 'c', 't'])
      inst['extra_elig_row'] = False
      inst['float_ints'] = False
      inst['par']['n_designs'] = rng.choice([2, 3, 5])
      inst['par']['iroas'] = rng.choice([0.5, 1.0, 2.0])
      inst['shape'] = name
      inst = mm.attach_oracle(inst)
      fa = fresh_answers(inst)
      if fa['exh'][0] == 'ok' and fa['exh'][1] and fa['greedy'][0] == 'ok' and fa['greedy'][1]:
        inst['cfg_b'] = config_b(inst)
        inst['fresh'] = {'A': fa, 'B': fresh_answers(inst['cfg_b'])}
        out.append(inst)
        break
  return out


def run(res):
  thorough = res.tier == 'thorough'
  mmdesign.run_design_level(res, 'C10')
  # design level: the API model, complete graph (VIEW hides the history)
  r = tlc.run_tlc('MMApi', CFG % ('{"D2", "D3", "R"}', 100000, 'VIEW View'), tlc.run_dir('C10_design'), workers=1)
  tlc.require_clean(r, 'MMApi')
  if r.violated:
    raise tlc.MachineryError('MMApi (current code) violates %s' % r.violated)
  res.add_tlc(r, 'MMApi.fixed')
  for fixes, inv in (('{"D3", "R"}', 'Memo'), ('{"D2", "R"}', 'ParamsUntouched'), ('{"D2", "D3"}', 'AnswersCurrentConfiguration')):
    r0 = tlc.run_tlc('MMApi', CFG % (fixes, 100000, 'VIEW View'), tlc.run_dir('C10_asis'), workers=1)
    if not r0.violated:
      raise tlc.MachineryError('MMApi with Fixes=%s no longer yields a counterexample' % fixes)
    res.extra['pre_repair_variant_' + fixes] = r0.violated
  depth = 3
  r = tlc.run_tlc('MMApi', CFG % ('{"D2", "D3", "R"}', depth, 'INVARIANT Emit'), tlc.run_dir('C10_emit'), workers=1)
  tlc.require_clean(r, 'MMApi(emit)')
  res.add_tlc(r, 'MMApi.enumerate')
  hists = r.json_lines()
  nsim, simdepth = (3000, 10) if thorough else (300, 8)
  rs = tlc.run_tlc('MMApi', CFG % ('{"D2", "D3", "R"}', simdepth, 'INVARIANT Emit'), tlc.run_dir('C10_sim'), workers=1,
                   simulate='num=%d' % nsim, depth=simdepth + 1, seed=res.seed % 100000)
  tlc.require_clean(rs, 'MMApi(simulate)')
  res.add_tlc(rs, 'MMApi.simulate')
  rng = random.Random(res.seed)
  sims = rs.json_lines()
  sims = rng.sample(sims, min(len(sims), 6000 if thorough else 500))
  insts = pick_instances(res.seed, 9 if thorough else 5)
  if len(insts) < 3:
    raise tlc.MachineryError('could not build instances with non-empty results for the parameter shapes')
  fresh = [i.pop('fresh') for i in insts]
  res.extra['instance_shapes'] = [i['shape'] for i in insts]
  jobs = []
  n_enum_insts = 4 if thorough else 2
  for i, inst in enumerate(insts):
    if i < n_enum_insts:
      for h in hists:
        jobs.append((inst, fresh[i], h))
  for j, h in enumerate(sims):
    i = j % len(insts)
    jobs.append((insts[i], fresh[i], h))
  results = par_mod.pmap(replay_history, jobs)
  calls_seen = {}
  retrieval_after_search = 0
  for (inst, _, h), bad in zip(jobs, results):
    res.case_seen((inst['id'], tuple(e['call'] for e in h)))
    res.traces += 1
    names = [e['call'] for e in h]
    for c in names:
      calls_seen[c] = calls_seen.get(c, 0) + 1
    retrieval_after_search += any(names[k] == 'search_results' and any(x in ('exh', 'greedy') for x in names[:k])
                                  for k in range(len(names)))
    if bad and len(res.violations) < 25:
      res.violate(bad[0], {'kind': 'history', 'instance': mm.public(inst), 'history': h[:bad[2]]}, bad[1])
  missing = [c for c in CALLS + ['reconfigure'] if c not in calls_seen]
  if missing or retrieval_after_search == 0:
    raise tlc.MachineryError('vacuous: calls never made %r, retrievals after a search %d' % (missing, retrieval_after_search))
  nonempty = sum(1 for f in fresh if f['A']['exh'][0] == 'ok' and f['A']['exh'][1])
  if nonempty == 0:
    raise tlc.MachineryError('vacuous: no instance has a non-empty exhaustive result')
  res.extra['instances'] = len(insts)
  res.extra['instances_with_designs'] = nonempty
  res.extra['histories_with_retrieval_after_search'] = retrieval_after_search
  res.coverage_actions.update({'replayed.' + k: [v, v] for k, v in calls_seen.items()})
  res.sample({'instance': {k: v for k, v in mm.public(insts[0]).items() if k != 'cells'}, 'history': jobs[len(jobs) // 2][2],
              'fresh_answers': {k: str(v)[:120] for k, v in fresh[0].items()}})
  res.exhaustive = False
  res.rule = ('all call histories of length %d over 14 public calls (MMApi.tla) on %d instances + %d TLC-simulated histories '
              'of length %d spread over %d instances; distinct = distinct (instance, history); non-trivial = all (histories '
              'with a retrieval after a search counted separately)') % (depth, n_enum_insts, len(sims), simdepth, len(insts))
  res.assumptions += ['design_within_constraints() is not among the calls the property lists and is not exercised',
                      'answers are compared exactly (same arithmetic on the same data)']


def replay(res, blob):
  c = blob['case']
  inst = mm.attach_oracle(mm.from_public(c['instance']))
  fresh = fresh_answers(inst)
  res.traces += 1
  res.case_seen('replay')
  bad = replay_history((inst, fresh, c['history']))
  if bad:
    res.violate(bad[0], c, bad[1])
