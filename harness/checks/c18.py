"""C18 - pointwise and cumulative effect series are well-formed for any experiment.

Shares spec/TBRModel.tla and its TLC runs with C06 (see c06.py).  The spec shows (EffectSeriesOrdered, a
counterexample is demanded from TLC) that "lower <= estimate <= upper on every date" of the first-differenced
pointwise series holds exactly when the posterior scale is non-decreasing over the analysed days, decided
exactly from V[k] >= V[k-1].  The contract demands of every frame: the report succeeds and satisfies the
identities of EffectSeriesIdentities plus the ordering.  Failures are classified by explicit predicates on the
case: scale sequence not non-decreasing (C18:scale-not-monotone), tails = 1 with level <= 0.5
(C18:level-le-half), frame with dates of the unassigned period (C18:unassigned-period-dates), frame whose
unassigned geos lack rows on some dates (C18:partial-unassigned-geo); anything else is a violation.
"""
import time

from harness import tlc
from harness.checks import c06 as base

KINDS = ['one_geo', 'split', 'split_shuffled', 'unassigned_geos', 'assigned_all_shuffled']
FINDING_KINDS = ['extra_dates', 'unassigned_partial']
LEVEL_TAILS = [(0.8, 1), (0.8, 2), (0.9, 1), (0.9, 2)]
LOW_LEVELS = [(0.25, 1), (0.5, 1)]
METRICS = ['tbr_response', 'tbr_cost']
KEY_MONO = 'C18:scale-not-monotone'
KEY_LEVEL = 'C18:level-le-half'
KEY_PERIOD = 'C18:unassigned-period-dates'
KEY_PARTIAL = 'C18:partial-unassigned-geo'
ORDER_MESSAGES = ('lower bound is not smaller than point estimate', 'upper bound is not larger than point estimate')


def fixed_cost(c, seed, kind):
  rng = base.frame_rng(seed, c, kind, 'fixedcost')
  n, nt, nc = c['npre'], c['ntest'], c['ncool']
  cy = [0] * n + [rng.randint(1, 5) for _ in range(nt)] + [rng.randint(0, 2) for _ in range(nc)]
  return [0] * (n + nt + nc), cy


def classify(clause, detail, c_metric, meta, level, tails):
  """(finding_key, nongeneric) of a failing call, by predicates on the case; (None, False) = plain violation."""
  ordering = clause.startswith('Ordered') or (clause == 'ReportSucceeds' and any(m in detail for m in ORDER_MESSAGES))
  if ordering:
    if tails == 1 and level <= 0.5:
      return KEY_LEVEL, False
    if c_metric is not None and not c_metric['mono']:
      return KEY_MONO, False
    if c_metric is not None and not c_metric['strict']:
      # two consecutive scales are exactly equal: lower = estimate in exact arithmetic, the float verdict is rounding
      return None, True
    return None, False
  if clause == 'ReportSucceeds' and meta['extra_dates']:
    return KEY_PERIOD, False
  if meta['unassigned_partial'] and clause in ('Dates', 'ExperimentDates', 'CounterfactualPlusPointwiseIsObserved',
                                               'PrePeriodPointwiseAreResiduals'):
    return KEY_PARTIAL, False
  return None, False


def judge(mods, ts, c, cm, expm, meta, cost_tot, metric, fixed, level, tails):
  """ts: the returned TimeSeries; cm / expm: abstract case and expectations of the metric (None when fixed cost)."""
  pd, np, st = mods['pd'], mods['np'], mods['st']
  n, t = c['npre'], c['ntest'] + c['ncool']
  day0 = pd.Timestamp(base.BASE_DATE)
  dates = [day0 + pd.Timedelta(days=d * meta.get('date_step', 1)) for d in meta['assigned_days']]
  observed = [float(v) for v in (c['y'] if metric == 'tbr_response' else cost_tot[1])]
  frames = {'counterfactual': ts.counterfactual, 'pointwise_difference': ts.pointwise_difference,
            'cumulative_effect': ts.cumulative_effect}
  for name, f in frames.items():
    if not {'date', 'estimate', 'lower', 'upper'} <= set(f.columns):
      return 'Columns', '%s has columns %r' % (name, list(f.columns))
    want = dates[n:] if name == 'cumulative_effect' else dates
    vals = f[['estimate', 'lower', 'upper']].to_numpy(dtype=float)
    if len(f) != len(want) or np.isnan(vals).any():
      return 'Dates', '%s has %d rows (NaN: %s), %d dates demanded' % (name, len(f), bool(np.isnan(vals).any()), len(want))
    for k in range(len(f)):
      if not (vals[k, 1] <= vals[k, 0] <= vals[k, 2]):
        return 'Ordered_' + name, 'row %d of %s: lower=%.12g estimate=%.12g upper=%.12g' % (
            k, name, vals[k, 1], vals[k, 0], vals[k, 2])
    got = [pd.Timestamp(d) for d in f['date']]
    if got != want:
      return 'ExperimentDates' if name == 'cumulative_effect' else 'Dates', '%s is dated %r, demanded %r' % (
          name, [str(d.date()) for d in got], [str(d.date()) for d in want])
  cf = ts.counterfactual['estimate'].to_numpy(dtype=float)
  pw = ts.pointwise_difference['estimate'].to_numpy(dtype=float)
  for i in range(n + t):
    if not base.close(cf[i] + pw[i], observed[i], max(abs(cf[i]), abs(pw[i]))):
      return 'CounterfactualPlusPointwiseIsObserved', 'date %d: %.12g + %.12g != observed %.12g' % (
          i, cf[i], pw[i], observed[i])
  res = [0.0] * n if fixed else expm['res']
  for i in range(n):
    if not base.close(pw[i], res[i], max(abs(observed[i]), 1.0)):
      return 'PrePeriodPointwiseAreResiduals', 'pre-period date %d: pointwise %.12g, OLS residual %.12g' % (i, pw[i], res[i])
  last = ts.cumulative_effect.iloc[-1]
  if fixed:
    tot = float(sum(observed[n:]))
    e_est = e_lo = e_up = tot
    sd = 1.0
  else:
    tp = (1.0 - level) / tails
    q = st.t.ppf(1.0 - tp, expm['df'])
    sd = expm['sd'][t - 1]
    e_est, e_lo, e_up = expm['loc'][t - 1], expm['loc'][t - 1] - q * sd, expm['loc'][t - 1] + q * sd
  for col, want in (('estimate', e_est), ('lower', e_lo), ('upper', e_up)):
    if not base.close(float(last[col]), want, max(sd, abs(e_est))):
      return 'LastCumulativeIsPosterior', 'last cumulative %s=%.12g, demanded %.12g (level %g tails %d)' % (
          col, float(last[col]), want, level, tails)
  return None


def run_frame(mods, c, partner, seed, kind, scenario, calls):
  """One frame, several (metric, level, tails) calls.  Returns (list of result dicts, meta)."""
  pd = mods['pd']
  fixed = scenario == 'fixed'
  cost_tot = fixed_cost(c, seed, kind) if fixed else (partner['x'], partner['y'])
  rows, meta = base.build_rows(c, kind, seed, cost=cost_tot, fixed=fixed, salt=scenario)
  df = base.to_frame(pd, rows, True)
  exp_r = base.expected(c)
  exp_c = None if fixed else base.expected(partner)
  out = []
  try:
    model = mods['iroas'].TBRiROAS(use_cooldown=True)
    variant = base.semantic_variant(df)
    base.refit_prelude(model, df, iroas=True, variant=variant)
    fdf, kw, resp_name = base.relabel(df, variant)
    if len(df) % 4 == 1:
      # the object was fitted on another frame; the caller then put in place two sub-models it fitted itself on the
      # frame under test.  The reports describe the sub-models in place when they are asked for.
      other = fdf.copy()
      other[resp_name] = other[resp_name].astype(float) * 2.0 + 1.0
      model.fit(other, **kw)
      cost_name = kw.get('key_cost', 'cost')
      tr, tc = mods['tbr'].TBR(use_cooldown=True), mods['tbr'].TBR(use_cooldown=True)
      tr.fit(fdf, resp_name, **kw)
      tc.fit(fdf, cost_name, **kw)
      model.tbr_response, model.tbr_cost = tr, tc
    else:
      model.fit(fdf, **kw)
    fit_error = None
  except Exception as e:  # pylint: disable=broad-except
    fit_error = '%s: %s' % (type(e).__name__, e)
  for metric, level, tails in calls:
    cm = c if metric == 'tbr_response' else (None if fixed else partner)
    expm = exp_r if metric == 'tbr_response' else exp_c
    r = {'metric': metric, 'level': level, 'tails': tails, 'clause': None, 'detail': '', 'key': None,
         'mono': None if cm is None else (cm['mono'], cm['strict']), 'nongeneric': False}
    if fit_error:
      r['clause'], r['detail'] = 'FitIsTotal', fit_error
    else:
      try:
        ts = model.estimate_pointwise_and_cumulative_effect(metric=metric, level=level, tails=tails)
        bad = judge(mods, ts, c, cm, expm, meta, cost_tot, metric, fixed and metric == 'tbr_cost', level, tails)
      except Exception as e:  # pylint: disable=broad-except
        bad = ('ReportSucceeds', '%s: %s' % (type(e).__name__, e))
      if bad:
        r['clause'], r['detail'] = bad
        r['key'], r['nongeneric'] = classify(bad[0], bad[1], cm, meta, level, tails)
        if r['nongeneric']:
          r['clause'] = None
    out.append(r)
  return out, meta


def run_prespend(mods, c, partner, seed, kind):
  """Control never spends, treatment already spends before the test: pre-period cost is not zero, so this is NOT the
  fixed-cost scenario and the cost report must be the regression-based one. The control cost series is constant, so
  the cost regression is rank-deficient (fit = mean of the pre-period treatment cost); only the two identities that do
  not involve the posterior scale are judged, and only when the report succeeds."""
  pd, np = mods['pd'], mods['np']
  n = len([p for p in c['lab'] if p == 0])
  cy = [int(v) for v in partner['y']]
  if len(cy) != len(c['y']) or len(set(cy[:n])) < 2:
    return None
  cost_tot = ([0] * len(cy), cy)
  rows, meta = base.build_rows(c, kind, seed, cost=cost_tot, fixed=False, salt='prespend')
  df = base.to_frame(pd, rows, True)
  try:
    model = mods['iroas'].TBRiROAS(use_cooldown=True)
    model.fit(df)
    ts = model.estimate_pointwise_and_cumulative_effect(metric='tbr_cost', level=0.9, tails=2)
  except ValueError as e:
    if 'bound is not' in str(e):
      return ('skipped', None, meta)       # ordering of a rank-deficient posterior: not specified here
    return ('ReportSucceeds', 'ValueError: %s' % e, meta)
  except Exception as e:  # pylint: disable=broad-except
    return ('ReportSucceeds', '%s: %s' % (type(e).__name__, e), meta)
  cf = ts.counterfactual['estimate'].to_numpy(dtype=float)
  pw = ts.pointwise_difference['estimate'].to_numpy(dtype=float)
  obs = [float(v) for v in cy]
  if len(cf) != len(obs) or len(pw) != len(obs):
    return ('Dates', '%d / %d rows for %d dates' % (len(cf), len(pw), len(obs)), meta)
  for i in range(len(obs)):
    if not base.close(cf[i] + pw[i], obs[i], max(abs(cf[i]), abs(pw[i]), 1.0)):
      return ('CounterfactualPlusPointwiseIsObserved', 'date %d: %.12g + %.12g != observed cost %.12g' % (i, cf[i], pw[i], obs[i]), meta)
  mean = sum(obs[:n]) / float(n)
  for i in range(n):
    if not base.close(pw[i], obs[i] - mean, max(abs(obs[i]), 1.0)):
      return ('PrePeriodPointwiseAreResiduals', 'treatment spends before the test (control never): pre-period date %d '
              'pointwise %.12g, residual of the cost regression %.12g' % (i, pw[i], obs[i] - mean), meta)
  return ('ok', None, meta)


def calls_for(idx, fi, low):
  a = LEVEL_TAILS[(idx + fi) % 4]
  b = LEVEL_TAILS[(idx + fi + 1 + (idx // 4) % 3) % 4]
  calls = [('tbr_response',) + a, ('tbr_cost',) + b, ('tbr_response',) + b, ('tbr_cost',) + a]
  if low:
    lo = LOW_LEVELS[(idx // 16) % 2]
    calls += [('tbr_response',) + lo, ('tbr_cost',) + lo]
  return calls


def frames_for(idx):
  kinds = list(KINDS)
  if idx % 8 == 3:
    kinds.append(FINDING_KINDS[(idx // 8) % 2])
  return kinds


def work(job):
  idx, c, partner, seed = job
  mods = base.load_mods()
  out = {'idx': idx, 'viol': [], 'traces': 0, 'stats': {}, 'keys': []}
  for fi, kind in enumerate(frames_for(idx)):
    scenario = 'fixed' if (idx + fi) % 2 == 0 else 'variable'
    calls = calls_for(idx, fi, low=(idx % 16 == 7 and fi == (idx // 16) % len(KINDS)))
    results, meta = run_frame(mods, c, partner, seed, kind, scenario, calls)
    out['keys'].append((idx, kind, scenario))
    for r in results:
      out['traces'] += 1
      tag = 'ok' if r['clause'] is None else ('finding' if r['key'] else 'violation')
      for k in ('kind:' + kind, 'scenario:' + scenario, 'metric:' + r['metric'], 'level:%g' % r['level'],
                'tails:%d' % r['tails'], 'outcome:' + tag, 'nongeneric:%s' % r['nongeneric'],
                'mono:%s:%s' % (r['mono'][0] if r['mono'] else 'fixedcost', tag)):
        out['stats'][k] = out['stats'].get(k, 0) + 1
      if r['clause'] is not None:
        out['viol'].append((r['clause'], {'case': base.case_public(c), 'cost_case': base.case_public(partner),
                                          'kind': kind, 'scenario': scenario, 'seed': seed, 'metric': r['metric'],
                                          'level': r['level'], 'tails': r['tails'], 'frame': meta},
                            r['detail'], r['key']))
  if idx % 4 == 1:
    pr = run_prespend(mods, c, partner, seed, KINDS[idx % len(KINDS)])
    if pr is not None:
      out['traces'] += 1
      out['stats']['prespend:' + (pr[0] if pr[0] in ('ok', 'skipped') else 'violation')] = 1
      if pr[0] not in ('ok', 'skipped'):
        out['viol'].append((pr[0], {'case': base.case_public(c), 'cost_case': base.case_public(partner),
                                    'kind': KINDS[idx % len(KINDS)], 'scenario': 'treatment_prespend', 'seed': seed,
                                    'metric': 'tbr_cost', 'level': 0.9, 'tails': 2, 'frame': pr[2]}, pr[1], None))
  return out


def partners(cases):
  """The variable-cost series of a case is the next emitted case of the same shape (cyclically)."""
  by_shape = {}
  for i, c in enumerate(cases):
    by_shape.setdefault(c['shape'], []).append(i)
  out = {}
  for idxs in by_shape.values():
    for j, i in enumerate(idxs):
      out[i] = cases[idxs[(j + 1) % len(idxs)]]
  return out


def run(res):
  base.load_mods()
  cases, info = base.run_model(res, 'C18')
  cases = base.thin(cases, res)
  res.extra.update(info)
  res.extra['replayed_cases'] = len(cases)
  res.exhaustive = False
  res.rule = ('same universe and sampling as C06 (TLC model-checks every case, emits those with Hash %% %d = '
              'seed-derived residue plus a sample of the non-monotone ones); distinct = distinct (abstract case, '
              'presentation kind, cost scenario) fitted with TBRiROAS(use_cooldown=True); each is queried for both '
              'metrics at two (level, tails) settings; non-trivial = every one' % base.TIERS[res.tier]['sample_mod'])
  part = partners(cases)
  t0 = time.time()
  results = base.pool_map(work, [(i, c, part[i], res.seed) for i, c in enumerate(cases)])
  stats = {}
  per_key = {}
  for out in results:
    res.traces += out['traces']
    for k in out['keys']:
      res.case_seen(k)
    for k, v in out['stats'].items():
      stats[k] = stats.get(k, 0) + v
    for clause, case, detail, key in out['viol']:
      per_key[key] = per_key.get(key, 0) + 1
      if per_key[key] <= (300 if key is None else 60):   # known classes never crowd out a plain violation
        res.violate(clause, case, detail, finding_key=key)
  res.extra['replay_wall_s'] = round(time.time() - t0, 1)
  res.extra['failing_calls_by_class'] = {str(k): v for k, v in per_key.items()}
  res.extra['calls'] = dict(sorted(stats.items()))
  res.extra['dropped_nongeneric'] = stats.get('nongeneric:True', 0)
  for i in range(0, len(cases), max(1, len(cases) // 5)):
    c = cases[i]
    res.sample({'x': c['x'], 'y': c['y'], 'periods': c['lab'], 'scale_monotone': c['mono'],
                'V (var_k = D*V_k/prod(varden))': c['V'], 'D': c['D'], 'varden': c['varden'],
                'pre_residuals': ['%d/%d' % (v, c['nk']) for v in c['resnum']],
                'last_cumulative_estimate': '%d/%d' % (c['locnum'][-1], c['nk']),
                'variable_cost_series': [part[i]['x'], part[i]['y']]})
  # vacuity guards
  need = ['kind:' + k for k in KINDS + FINDING_KINDS] + ['scenario:fixed', 'scenario:variable'] + \
      ['metric:' + m for m in METRICS] + ['level:0.8', 'level:0.9', 'tails:1', 'tails:2', 'mono:True:ok']
  missing = [k for k in need if stats.get(k, 0) == 0]
  if missing:
    raise tlc.MachineryError('vacuous run: never exercised %r (%r)' % (missing, stats))
  if not any(not c['mono'] for c in cases) or sum(v for k, v in stats.items() if k.startswith('mono:False:')) == 0:
    raise tlc.MachineryError('vacuous run: no case with a non-monotone posterior scale was replayed (%r)' % info)
  res.assumptions += [
      'scipy.stats.t.ppf is trusted',
      'cases whose consecutive scales are exactly equal (lower = estimate in exact arithmetic) are not judged on '
      'the ordering clauses when the float verdict fails (counted as dropped_nongeneric)',
      'the fixed-cost scenario is cost zero in the pre-period and for the control group, positive for treatment in '
      'the test period; the variable-cost series of a case is another enumerated case of the same shape',
      'frames use the default column names and labels; dates are daily, every other day or weekly from ' + base.BASE_DATE]


def replay(res, blob):
  mods = base.load_mods()
  v = blob['case']
  res.traces += 1
  res.case_seen('replay')
  if v['scenario'] == 'treatment_prespend':
    pr = run_prespend(mods, v['case'], v['cost_case'], v['seed'], v['kind'])
    if pr is not None and pr[0] not in ('ok', 'skipped'):
      res.violate(pr[0], v, pr[1])
    return
  results, _ = run_frame(mods, v['case'], v['cost_case'], v['seed'], v['kind'], v['scenario'],
                         [(v['metric'], v['level'], v['tails'])])
  for r in results:
    if r['clause'] is not None:
      res.violate(r['clause'], v, r['detail'], finding_key=r['key'])
