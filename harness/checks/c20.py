"""C20 - expansion of excluded days is exact.

TLC enumerates every list of entries of DayWindows.tla (bounded by M, MaxLen), checks that the
implementation-shaped pipeline refines the declarative contract, and prints one JSON case per list.
Every case is replayed into utils.find_days_to_exclude / utils.expand_time_windows on concrete
calendar dates (bases straddling leap day, year end, month end).
"""
import datetime

from harness import tlc

BASES = [datetime.date(2020, 2, 27), datetime.date(2019, 12, 29), datetime.date(2021, 2, 26),
         datetime.date(2020, 3, 30), datetime.date(2023, 12, 30), datetime.date(1999, 12, 30)]
SPACINGS = [' - ', '-', '  -  ']
NBAD = 10

CFG = """SPECIFICATION Spec
CONSTANTS M = %d
 MaxLen = %d
 NBad = %d
 Wide = %s
INVARIANT TypeOK
INVARIANT RefinesContract
INVARIANT NoForeignDay
INVARIANT Emit
%s
"""


def fmt(base, d):
  x = base + datetime.timedelta(days=d)
  return '%04d/%02d/%02d' % (x.year, x.month, x.day)


def render(entry, base, sp):
  k, a, b = entry['k'], entry['a'], entry['b']
  if k == 0:
    return fmt(base, a)
  if k == 1:
    return fmt(base, a) + sp + fmt(base, b)
  return {1: 'not a date', 2: '%04d/13/01' % base.year, 3: '2021/02/30',
          4: fmt(base, 0) + sp + fmt(base, 1) + sp + fmt(base, 2), 5: '', 6: fmt(base, 0) + ' -',
          # more than one dash, but what follows the first one still reads as a date to a lenient parser
          7: fmt(base, 0) + sp + fmt(base, 1) + sp + '12', 8: fmt(base, 0) + sp + fmt(base, 1) + ' -',
          9: fmt(base, 0) + '-' + fmt(base, 1) + '-2020',
          10: fmt(base, 0) + sp + (base + datetime.timedelta(days=1)).isoformat()}[a]


def run_case(utils, pd, case, base, sp):
  """Returns None when the code agrees with the contract, else (clause, detail)."""
  strings = [render(e, base, sp) for e in case['entries']]
  expected = sorted(base + datetime.timedelta(days=d) for d in case['days'])
  try:
    windows = utils.find_days_to_exclude(list(strings))
    out = utils.expand_time_windows(windows)
  except ValueError:
    if case['ok']:
      return 'Accepts', 'ValueError on a well-formed list %r' % (strings,)
    return None
  except Exception as e:  # pylint: disable=broad-except
    return 'ErrorType', '%s instead of ValueError/result on %r: %s' % (type(e).__name__, strings, e)
  if not case['ok']:
    return 'Rejects', 'malformed or reversed entry accepted: %r -> %r' % (strings, out)
  if not isinstance(out, list):
    return 'ResultIsList', 'type %s' % type(out).__name__
  if len(windows) != len(strings):
    return 'OneWindowPerEntry', '%d windows for %d entries' % (len(windows), len(strings))
  for w, e in zip(windows, case['entries']):
    lo = base + datetime.timedelta(days=e['a'])
    hi = lo if e['k'] == 0 else base + datetime.timedelta(days=e['b'])
    if pd.Timestamp(w.first_day) != pd.Timestamp(lo) or pd.Timestamp(w.last_day) != pd.Timestamp(hi):
      return 'WindowBounds', 'entry %r parsed as %r..%r' % (e, w.first_day, w.last_day)
  got = []
  for t in out:
    ts = pd.Timestamp(t)
    if ts != ts.normalize():
      return 'CalendarDays', 'non-midnight timestamp %r' % (t,)
    got.append(ts.date())
  if len(set(got)) != len(got):
    return 'ExactlyOnce', 'duplicate day in %r for %r' % (sorted(got), strings)
  if sorted(got) != expected:
    return 'CoveredDays', 'input %r: expected %r got %r' % (strings, [str(x) for x in expected],
                                                          [str(x) for x in sorted(got)])
  if windows:
    # the windows handed back are the caller's: it widens them in place, then asks again for the same strings
    for w in windows:
      w.last_day = w.last_day + pd.Timedelta(days=3)
      w.first_day = w.first_day - pd.Timedelta(days=2)
    try:
      again = sorted(pd.Timestamp(t).date() for t in utils.expand_time_windows(utils.find_days_to_exclude(list(strings))))
    except Exception as e:  # pylint: disable=broad-except
      return 'SecondCallSameAnswer', '%s on the second call for %r: %s' % (type(e).__name__, strings, e)
    if again != expected:
      return 'SecondCallSameAnswer', 'input %r asked again after the caller edited the windows it got: expected %r got %r' % (
          strings, [str(x) for x in expected], [str(x) for x in again])
  return None


def run(res):
  import pandas as pd
  from matched_markets.methodology import utils
  thorough = res.tier == 'thorough'
  m, maxlen = (5, 3) if thorough else (3, 3)
  cfg = CFG % (m, maxlen, NBAD, 'FALSE', 'PROPERTY Terminates' if not thorough else '')
  r = tlc.run_tlc('DayWindows', cfg, tlc.run_dir('C20'), workers=1, timeout=3000)
  tlc.require_clean(r, 'DayWindows')
  res.add_tlc(r, 'DayWindows')
  if r.violated:
    raise tlc.MachineryError('design-level spec DayWindows violates %s (spec bug, not a code verdict)' % r.violated)
  cases = r.json_lines()
  if len(cases) != r.init_states or not cases:
    raise tlc.MachineryError('expected one emitted case per initial state (%d), got %d' % (r.init_states, len(cases)))
  # a longer calendar, proper ranges only: every list of <= 3 ranges on 0..8 (thorough: 0..9), among them the ones in
  # which a range bridges two others
  wm = 9 if thorough else 8
  rw = tlc.run_tlc('DayWindows', CFG % (wm, 3, NBAD, 'TRUE', ''), tlc.run_dir('C20_wide'), workers=1, timeout=3000)
  tlc.require_clean(rw, 'DayWindows (wide)')
  res.add_tlc(rw, 'DayWindows.wide')
  if rw.violated:
    raise tlc.MachineryError('design-level spec DayWindows (wide) violates %s (spec bug)' % rw.violated)
  wide = rw.json_lines()
  if len(wide) != rw.init_states or not wide:
    raise tlc.MachineryError('wide run: one emitted case per initial state expected (%d), got %d' % (rw.init_states, len(wide)))
  def bridging(es):
    return len(es) == 3 and any(
        es[x]['a'] <= es[z]['a'] <= es[x]['b'] < es[y]['a'] - 1 and es[y]['a'] <= es[z]['b'] <= es[y]['b']
        for x in range(3) for y in range(3) for z in range(3) if len({x, y, z}) == 3)
  n_bridge = sum(1 for c in wide if bridging(c['entries']))
  if n_bridge == 0:
    raise tlc.MachineryError('vacuous wide run: no list in which one range bridges two others')
  res.extra['wide_calendar'] = {'last_day': wm, 'lists': len(wide), 'lists_with_a_bridging_range': n_bridge}
  cases = cases + wide
  res.exhaustive = True
  res.rule = ('all lists of <= %d entries over single days / closed ranges (incl. reversed) on ordinals 0..%d and %d '
              'malformed kinds, enumerated by TLC; distinct = distinct (list, base date, dash spacing) replayed; '
              'non-trivial = every case (each exercises parse + expand or a rejection)') % (maxlen, m, NBAD)
  n_acc = n_rej = 0
  for idx, case in enumerate(cases):
    n = len(case['entries'])
    if thorough or n <= 2:
      combos = [(b, SPACINGS[(idx + j) % len(SPACINGS)]) for j, b in enumerate(BASES)]
    else:
      combos = [(BASES[(idx + res.seed) % len(BASES)], SPACINGS[idx % len(SPACINGS)])]
    for base, sp in combos:
      res.case_seen((idx, str(base), sp))
      res.traces += 1
      bad = run_case(utils, pd, case, base, sp)
      if case['ok']:
        n_acc += 1
      else:
        n_rej += 1
      if bad:
        res.violate(bad[0], {'entries': case['entries'], 'base': str(base), 'spacing': sp,
                             'expected_ok': case['ok'], 'expected_days': case['days']}, bad[1])
        if len(res.violations) > 50:
          break
    if idx % 4001 == 7:
      res.sample({'entries': case['entries'], 'rendered': [render(e, combos[0][0], combos[0][1]) for e in case['entries']],
                  'expect_ok': case['ok'], 'expect_day_ordinals': case['days']})
    if len(res.violations) > 50:
      break
  res.extra['accepted_replays'] = n_acc
  res.extra['rejected_replays'] = n_rej
  if n_acc == 0 or n_rej == 0:
    raise tlc.MachineryError('vacuous run: accepted=%d rejected=%d' % (n_acc, n_rej))
  res.assumptions += ['calendar arithmetic of datetime.date is the reference for rendering ordinals',
                      'entries outside the documented format other than the %d malformed kinds are not explored' % NBAD]


def replay(res, blob):
  import pandas as pd
  from matched_markets.methodology import utils
  c = blob['case']
  case = {'entries': c['entries'], 'ok': c['expected_ok'], 'days': c['expected_days']}
  base = datetime.date.fromisoformat(c['base'])
  bad = run_case(utils, pd, case, base, c['spacing'])
  res.traces += 1
  res.case_seen('replay')
  if bad:
    res.violate(bad[0], c, bad[1])
