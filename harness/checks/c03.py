"""C03 - see DESIGN.md section 4. Decided by MMTrace.tla on traces recorded by the shared search driver (harness/mm.py)
plus the design-level models (harness/mmdesign.py)."""
from harness import mm
from harness import mmdesign
from harness import scoreorder

OWNER = 'C03'


def run(res):
  scoreorder.run(res, thorough=(res.tier == 'thorough'))
  mmdesign.run_design_level(res, OWNER)
  insts, verdicts, stats = mm.run_search_clauses(res, OWNER, count=None if res.tier == 'thorough' else 520)
  mm.vacuity_guard(res, OWNER, stats)
  # step-level binding of the implementation-shaped model (hooks): drift is recorded as a note, never a verdict
  mm.run_step_validation(res, insts, OWNER)
  mm.describe(res, OWNER)


def replay(res, blob):
  if blob['case'].get('kind') == 'scoreorder':
    scoreorder.run(res)
    return
  mm.replay_case(res, blob)
