"""C17 - design parameters are accepted exactly when in their documented domain.

Params.tla holds the documented domain of the sixteen fields (transcribed from the class docstring) over an
abstract ordered grid of points around each bound, the three-valued contract Verdict (accept / reject /
either) and an implementation-shaped model of __post_init__ that TLC shows to refine the contract.  TLC
prints: a header (field table, grid), every (field, value) with all other fields valid on two baselines
(everything passed explicitly / only the required fields passed), every pair of faults in two different
fields, the all-defaults case and equality cases.  This module binds every abstract point to a concrete
Python value (math.nextafter neighbours of each bound, infinities, NaN, '1', None, tuples / lists of the
wrong shape), verifies that the concrete values have exactly the order / integrality / domain membership the
grid claims, constructs the real TBRMMDesignParameters and compares.
"""
import math
from fractions import Fraction

from harness import tlc

CFG = """SPECIFICATION Spec
CONSTANTS DoubleReps = "%s"
INVARIANT TypeOK
INVARIANT RefinesContract
INVARIANT FirstFailing
INVARIANT DoubleFaultRejected
INVARIANT DefaultsAccepted
INVARIANT Emit
"""
INF = float('inf')
NAN = float('nan')
OMIT = object()


# ------------------------------------------------------------------ binding of the abstract grid
def bind_points(d, info):
  """Concrete Python value of every abstract point of one field (d: row of FieldTable, info: PointInfo)."""
  lo = Fraction(d['lo'][0], d['lo'][1])
  lo_f = float(lo)
  pts = {'ninf': -INF, 'pinf': INF, 'nan': NAN, 'str': '1', 'neg_zero': -0.0,
         'fp_below_lo': math.nextafter(lo_f, -INF), 'fp_above_lo': math.nextafter(lo_f, INF)}
  if d['int']:
    lo_i = int(lo)
    pts.update(lo_minus=lo_i - 1, at_lo=lo_i, at_lo_f=float(lo_i), in_a=lo_i + 1, in_nonint=lo_i + 1.5,
               in_b=float(lo_i + 3), big=10 ** 9)
  elif d['hi'] == 'one':
    hi_f = 1.0
    pts.update(lo_minus=lo_f - 1.0, at_lo=lo_f, in_a=lo_f + (hi_f - lo_f) * 0.25, in_b=lo_f + (hi_f - lo_f) * 0.5,
               fp_below_hi=math.nextafter(hi_f, -INF), at_hi=hi_f, fp_above_hi=math.nextafter(hi_f, INF),
               hi_plus=hi_f + 1.0)
  else:
    pts.update(lo_minus=lo_f - 1.0, at_lo=lo_f, in_a=lo_f + 0.5, in_int=int(lo) + 3, in_b=lo_f + 7.25, big=1e300)
  if d['dflt'][1] != 0:
    pts['dflt'] = default_value(d)
  missing = [p for p in info if p not in pts]
  if missing:
    raise tlc.MachineryError('no binding for points %r of %s' % (missing, d['name']))
  return {p: pts[p] for p in info}


def default_value(d):
  if d['dflt'][1] == 0:
    return None
  fr = Fraction(d['dflt'][0], d['dflt'][1])
  return int(fr) if d['int'] else float(fr)


def verify_binding(d, info, pts):
  """The concrete values must have exactly the attributes the spec's grid claims (else the run means nothing)."""
  name = d['name']
  lo_f = float(Fraction(d['lo'][0], d['lo'][1]))
  nums = [p for p in info if info[p]['kind'] == 'num']
  for p in info:
    v = pts[p]
    kind = ('str' if isinstance(v, str) else 'none' if v is None else 'nan' if v != v else 'num')
    if kind != info[p]['kind']:
      raise tlc.MachineryError('%s.%s: kind %s bound to %r' % (name, p, info[p]['kind'], v))
  for p in nums:
    for q in nums:
      a, b = pts[p], pts[q]
      got = (a > b) - (a < b)
      want = (info[p]['pos'] > info[q]['pos']) - (info[p]['pos'] < info[q]['pos'])
      if got != want:
        raise tlc.MachineryError('%s: order of %s=%r and %s=%r contradicts the grid' % (name, p, a, q, b))
    v = pts[p]
    if d['int']:
      integral = isinstance(v, int) or (math.isfinite(v) and float(v).is_integer())
      if integral != info[p]['integral']:
        raise tlc.MachineryError('%s.%s=%r: integrality contradicts the grid' % (name, p, v))
    in_dom = (lo_f <= v if d['lo_closed'] else lo_f < v)
    if d['hi'] == 'one':
      in_dom = in_dom and v < 1.0
    elif d['hi'] == 'inf':
      in_dom = in_dom and v < INF
    if d['int']:
      in_dom = in_dom and (isinstance(v, int) or (math.isfinite(v) and float(v).is_integer()))
    if in_dom != info[p]['in_domain']:
      raise tlc.MachineryError('%s.%s=%r: domain membership contradicts the grid' % (name, p, v))
    if (isinstance(v, int) and not d['int']) != info[p]['int_typed']:
      raise tlc.MachineryError('%s.%s=%r: int-typedness contradicts the grid' % (name, p, v))
  if pts['fp_below_lo'] >= lo_f or pts['fp_above_lo'] <= lo_f:
    raise tlc.MachineryError('%s: nextafter neighbours of the lower bound' % name)


def concrete(v, pts, pair_field):
  """Concrete Python value of an abstract value record; OMIT when the argument is not passed."""
  pts = dict(pts)
  pts['none_m'] = None
  if v['tag'] == 'pt':
    return pts[v['p']]
  if v['tag'] == 'pair':
    return (pts[v['p']], pts[v['q']])
  t = v['p']
  a, b = pts['in_a'], pts['in_b']
  table = {'none': None, 'omitted': OMIT, 'tuple': (a, b), 'list': [a, b] if pair_field else [a], 'arity0': (),
           'arity1': (a,), 'arity3': (a, b, b), 'scalar': a, 'string': '12'}
  return table[t]


def encode(x):
  if x is None:
    return {'t': 'none'}
  if isinstance(x, str):
    return {'t': 'str', 'v': x}
  if isinstance(x, int):
    return {'t': 'int', 'v': x}
  if isinstance(x, float):
    return {'t': 'float', 'v': x.hex(), 'repr': repr(x)}
  if isinstance(x, tuple):
    return {'t': 'tuple', 'v': [encode(y) for y in x]}
  if isinstance(x, list):
    return {'t': 'list', 'v': [encode(y) for y in x]}
  raise tlc.MachineryError('cannot encode %r' % (x,))


def decode(e):
  t = e['t']
  if t == 'none':
    return None
  if t in ('str', 'int'):
    return e['v']
  if t == 'float':
    return float.fromhex(e['v'])
  if t == 'tuple':
    return tuple(decode(y) for y in e['v'])
  return [decode(y) for y in e['v']]


class Binding:

  def __init__(self, header):
    self.fields = header['fields']
    self.names = [d['name'] for d in self.fields]
    self.points = []
    for d, info in zip(self.fields, header['points']):
      pts = bind_points(d, info)
      verify_binding(d, info, pts)
      self.points.append(pts)
    self.base = {'full': header['full'], 'defaults': header['defaults']}

  def kwargs(self, base, changes):
    """[(name, encoded concrete value)] for the arguments that are passed."""
    obj = list(self.base[base])
    for c in changes:
      obj[c['f'] - 1] = c['v']
    out = []
    for i, v in enumerate(obj):
      x = concrete(v, self.points[i], self.fields[i]['shape'] == 'rng')
      if x is not OMIT:
        out.append([self.names[i], encode(x)])
    return out

  def documented_defaults(self):
    return [[d['name'], encode(default_value(d))] for d in self.fields if not d['req']]

  def describe(self, changes):
    return [{'field': self.names[c['f'] - 1], 'value': c['v']} for c in changes]


# ------------------------------------------------------------------ running one case against the real code
def construct(cls, kwargs_enc):
  """Returns ('ok', obj) | ('ValueError', msg) | ('other', 'Type: msg')."""
  kw = {k: decode(e) for k, e in kwargs_enc}
  try:
    return 'ok', cls(**kw)
  except ValueError as e:
    return 'ValueError', str(e)
  except Exception as e:  # pylint: disable=broad-except
    return 'other', '%s: %s' % (type(e).__name__, e)


def same_value(a, b):
  return (a is None) == (b is None) and a == b


def run_case(cls, case):
  """case: the JSON-able dict stored with a violation.  Returns None or (clause, detail)."""
  how, obj = construct(cls, case['kwargs'])
  shown = ', '.join('%s=%r' % (k, decode(e)) for k, e in case['kwargs'])
  if how == 'other':
    return 'ErrorType', '%s instead of %s for TBRMMDesignParameters(%s)' % (
        obj, {'accept': 'success', 'reject': 'ValueError', 'either': 'success or ValueError'}[case['verdict']], shown)
  if how == 'ValueError' and case['verdict'] == 'accept':
    return 'Accepts', 'ValueError (%s) although every field is in its documented domain: %s' % (obj, shown)
  if how == 'ok' and case['verdict'] == 'reject':
    return 'Rejects', 'accepted although a field is outside its documented domain: %s' % shown
  if how != 'ok':
    return None
  passed = set(k for k, _ in case['kwargs'])
  for name, e in case['defaults']:
    if name not in passed and not same_value(getattr(obj, name), decode(e)):
      return 'Defaults', '%s defaults to %r, documented %r' % (name, getattr(obj, name), decode(e))
  if case['kind'] == 'eq':
    how2, obj2 = construct(cls, case['kwargs2'])
    if how2 != 'ok':
      return 'Accepts', 'second object of an equality case not constructed: %s' % (obj2,)
    try:
      got = (obj == obj2)
      got_rev = (obj2 == obj)
    except Exception as e:  # pylint: disable=broad-except
      return 'Equality', 'comparison raised %s: %s' % (type(e).__name__, e)
    if got is not case['equal'] or got_rev is not case['equal']:
      return 'Equality', '(%s) == (%s): expected %r, got %r / %r' % (
          shown, ', '.join('%s=%r' % (k, decode(e)) for k, e in case['kwargs2']), case['equal'], got, got_rev)
    # equality speaks about the values the fields hold NOW: the fields are public and assignable
    try:
      import dataclasses
      if case['equal']:
        obj.n_test = obj.n_test + 1
        if obj == obj2 or obj2 == obj:
          return 'Equality', '(%s): still equal to its twin after n_test was re-assigned on one of them' % shown
        obj.n_test = obj.n_test - 1
        if not (obj == obj2):
          return 'Equality', '(%s): unequal to its twin after n_test was assigned back' % shown
      else:
        for f in dataclasses.fields(obj2):
          setattr(obj, f.name, getattr(obj2, f.name))
        if not (obj == obj2 and obj2 == obj):
          return 'Equality', '(%s): unequal to the second object after every field was assigned its value' % shown
    except Exception as e:  # pylint: disable=broad-except
      return 'Equality', 'comparison after re-assignment raised %s: %s' % (type(e).__name__, e)
  return None


def finding_key_for(case, bad):
  # D10 (repaired in the tree by 83b3182): inf given to an integer-valued field raised OverflowError
  if bad[0] == 'ErrorType' and 'OverflowError' in bad[1]:
    for _, e in case['kwargs']:
      vals = e['v'] if e['t'] in ('tuple', 'list') else [e]
      if any(x['t'] == 'float' and decode(x) == INF for x in vals):
        return 'C17:inf-integer-overflow'
  return None


RANGE_FIELDS = ('treatment_share_range', 'budget_range', 'treatment_geos_range', 'control_geos_range')
ALL_FIELDS = ('n_test', 'iroas', 'volume_ratio_tolerance', 'geo_ratio_tolerance') + RANGE_FIELDS + (
    'n_geos_max', 'n_pretest_max', 'n_designs', 'sig_level', 'power_level', 'min_corr', 'rho_max', 'flevel')
VALID = {'n_test': 7, 'iroas': 1.0, 'volume_ratio_tolerance': 0.5, 'geo_ratio_tolerance': 0.5,
         'treatment_share_range': (0.1, 0.6), 'budget_range': (1.0, 9.0), 'treatment_geos_range': (1, 3),
         'control_geos_range': (2, 4), 'n_geos_max': 5, 'n_pretest_max': 40, 'n_designs': 2, 'sig_level': 0.9,
         'power_level': 0.8, 'min_corr': 0.85, 'rho_max': 0.99, 'flevel': 0.95}


def wrong_types(res):
  """The abstract grid point "wrong type" (Params.tla: NumKind "str" => reject) bound to further concrete values:
  numeric-looking objects that are neither int nor float are outside every documented domain ('A float', 'An integer',
  'A tuple of two ...')."""
  import decimal
  import fractions
  from matched_markets.methodology import tbrmmdesignparameters as mod
  values = [('Decimal', lambda v: decimal.Decimal(str(v))), ('Fraction', lambda v: fractions.Fraction(v).limit_denominator(1000)),
            ('complex', lambda v: complex(v, 0.0)), ('bytes', lambda v: b'1'), ('dict', lambda v: {'value': v})]
  n = 0
  for field in ALL_FIELDS:
    for name, conv in values:
      variants = []
      if field in RANGE_FIELDS:
        lo, hi = VALID[field]
        variants = [(conv(lo), hi), (lo, conv(hi)), conv(lo)]
      else:
        variants = [conv(VALID[field])]
      for val in variants:
        kw = dict(VALID)
        kw[field] = val
        n += 1
        res.traces += 1
        try:
          mod.TBRMMDesignParameters(**kw)
          got = 'accepted'
        except ValueError:
          got = 'ValueError'
        except Exception as e:  # pylint: disable=broad-except
          got = type(e).__name__
        if got != 'ValueError':
          res.violate('WrongTypeRejectedWithValueError', {'kind': 'wrong_type', 'field': field, 'type': name, 'value': repr(val)},
                      '%s=%r (%s, neither int nor float): %s, the documented domain demands ValueError' % (field, val, name, got))
  res.extra['wrong_type_cases'] = n


def run(res):
  from matched_markets.methodology.tbrmmdesignparameters import TBRMMDesignParameters as cls
  thorough = res.tier == 'thorough'
  r = tlc.run_tlc('Params', CFG % ('all' if thorough else 'few'), tlc.run_dir('C17'), workers=1, timeout=3000)
  tlc.require_clean(r, 'Params')
  res.add_tlc(r, 'Params')
  if r.violated:
    raise tlc.MachineryError('design-level spec Params violates %s (spec bug, not a code verdict)' % r.violated)
  lines = r.json_lines()
  headers = [c for c in lines if c['kind'] == 'header']
  cases = [c for c in lines if c['kind'] != 'header']
  if len(headers) != 1 or len(lines) != r.init_states or not cases:
    raise tlc.MachineryError('expected a header and one case per initial state (%d), got %d lines' % (
        r.init_states, len(lines)))
  bind = Binding(headers[0])
  defaults = bind.documented_defaults()
  wrong_types(res)
  res.exhaustive = True
  res.rule = ('sixteen fields x every point of the boundary grid (each bound, its two floating-point neighbours, '
              'bound -/+ 1, interior points of int / float / non-integral kind, +-inf, NaN, \'1\', None, omitted, '
              'tuple / list) and for the four ranges every ordered pair of grid points plus wrong arity / list / scalar '
              '/ string, on two baselines; %s pairs of faults in two different fields; all-defaults; equality of %s; '
              'enumerated by TLC; distinct = distinct cases replayed; non-trivial = every case (each constructs the '
              'real object)') % ('all' if thorough else 'representative', 'all pairs of valid variants')
  stat = {'accept': 0, 'reject': 0, 'either': 0, 'either_accepted_by_code': 0, 'eq_equal': 0, 'eq_unequal': 0,
          'single': 0, 'double': 0, 'defaults': 0, 'eq': 0}
  first_fail = set()
  for idx, c in enumerate(cases):
    case = {'kind': c['kind'], 'base': c['base'], 'changes': bind.describe(c['ch']), 'verdict': c['verdict'],
            'kwargs': bind.kwargs(c['base'], c['ch']), 'defaults': defaults, 'spec_first_failing_check': c['first_fail']}
    if c['kind'] == 'eq':
      case.update(base2=c['base2'], changes2=bind.describe(c['ch2']), kwargs2=bind.kwargs(c['base2'], c['ch2']),
                  equal=c['equal'])
      stat['eq_equal' if c['equal'] else 'eq_unequal'] += 1
    res.case_seen(idx)
    res.traces += 1
    stat[c['verdict']] += 1
    stat[c['kind']] += 1
    if c['first_fail'] != '-':
      first_fail.add(c['first_fail'])
    bad = run_case(cls, case)
    if c['verdict'] == 'either' and construct(cls, case['kwargs'])[0] == 'ok':
      stat['either_accepted_by_code'] += 1
    if bad:
      res.violate(bad[0], case, bad[1], finding_key=finding_key_for(case, bad))
      if len(res.violations) > 50:
        break
    if idx % 997 == 5 or (c['kind'] == 'eq' and idx % 331 == 0):
      s = {'kind': c['kind'], 'changes': case['changes'], 'expect': c['verdict'],
           'call': 'TBRMMDesignParameters(%s)' % ', '.join('%s=%r' % (k, decode(e)) for k, e in case['kwargs'])}
      if c['kind'] == 'eq':
        s['other'] = ', '.join('%s=%r' % (k, decode(e)) for k, e in case['kwargs2'])
        s['expect_equal'] = c['equal']
      res.sample(s)
  res.extra.update(stat)
  res.extra['fields_raising_first_in_spec'] = sorted(first_fail)
  res.extra['grid'] = {d['name']: {p: repr(v) for p, v in pts.items()} for d, pts in zip(bind.fields, bind.points)}
  if len(res.violations) <= 50:
    for k in ('accept', 'reject', 'either', 'eq_equal', 'eq_unequal', 'single', 'double', 'defaults'):
      if stat[k] == 0:
        raise tlc.MachineryError('vacuous run: no case of kind %s' % k)
    if first_fail != set(bind.names):
      raise tlc.MachineryError('vacuous run: checks that never raise in the spec: %r' % sorted(set(bind.names) - first_fail))
  res.assumptions += ['bool and numpy scalars are outside the grid (DESIGN.md section 6)',
                      'a range with equal ends, and an int where the docstring says float, are left to the code '
                      '(success or ValueError, nothing else); +inf is in the domain of the three fields documented '
                      'with a lower bound only (iroas, the two tolerances) and of no integer field or range member',
                      'comparison with a non-parameter object (NotImplementedError in the code) is not judged']


def replay(res, blob):
  if blob['case'].get('kind') == 'wrong_type':
    wrong_types(res)
    return

  from matched_markets.methodology.tbrmmdesignparameters import TBRMMDesignParameters as cls
  case = blob['case']
  res.traces += 1
  res.case_seen('replay')
  bad = run_case(cls, case)
  if bad:
    res.violate(bad[0], case, bad[1], finding_key=finding_key_for(case, bad))
