"""C07 - the iROAS summary is coherent with its incremental response and cost.

spec/IROASModel.tla (EXTENDS TBRModel): TLC enumerates every case of TBRModel's universe (small-integer per-date
response totals) times six integer cost patterns (two fixed-cost, one non-degenerate variable-cost, three that
carry cost in exactly one term of the scenario test), runs the response pipeline of TBRModel and then summary()
implementation-shaped (scenario test -> fixed branch: rescaled response summary + incremental_* columns;
variable branch: an uninterpreted simulate term), for both settings of use_cooldown, and checks as invariants the
scenario contract, the fixed-cost identities, the ordering and the scaling law in exact rational arithmetic.  A
deterministic sample of (case, cost pattern, use_cooldown) is printed with what the contract demands and replayed
into TBRiROAS.fit / summary on concrete long-format frames (the frame builder of c06.py).

spec/IROASHistory.tla: TLC enumerates every history of three summary(random_state=s) calls (s in {1, 2}, two
argument combinations, each call on the long-lived object or on a fresh one) with the memo invariant (first answer
per key); a witness run with random_state=None allowed must violate it.  The histories are replayed on the
variable-cost frames: same key => identical report.

Reuses c06.py: frame builder, expected values from TLC's rationals, module loader, process pool.
"""
import math
import time

from harness import tlc
from harness.checks import c06 as base

Fraction = base.Fraction

# shape code: 1000 maxv + 100 n_pre + 10 n_test + n_cool (see TBRModel.tla)
TIERS = {
    'quick': dict(shapes=[2310, 2311, 1411], sample_mod=64, nsims=2000, pairs_per_job=1, max_jobs=1200),
    'thorough': dict(shapes=[3311, 2312, 2411, 1521, 1512], sample_mod=640, nsims=4000, pairs_per_job=2,
                     max_jobs=9000),
}
COST_VARIANTS = [1, 2, 3, 4, 5, 6]
SCALE_PAIR_CODES = [21, 12, 42, 24]
DESIGN_INVARIANTS = ['TypeOK', 'ITypeOK', 'FitIsOLS', 'SelectedAreAnalysed', 'ImplRefinesClosedForm', 'Finished',
                     'ScenarioIsContract', 'ReportRefinesContract', 'FixedIdentities', 'FixedOrdered', 'ScalingLaw',
                     'ScalingKeepsLabel']
ACTIONS = ['ScenarioTest', 'FixedBranch', 'VariableBranch']

CFG = """SPECIFICATION ISpec
CONSTANTS Shapes = {%s}
 SampleMod = %d
 SampleRes = %d
 NMMod = %d
 EmitOnly = %s
 CostVariants = {%s}
 ScalePairs = {%s}
%s
"""

HIST_CFG = """SPECIFICATION Spec
CONSTANTS MaxCalls = 3
 Seeds = {1, 2}
 Args = {1, 2}
 AllowNone = %s
INVARIANT TypeOK
INVARIANT MemoInvariant
INVARIANT FirstIsSameKey
%s
"""

# argument combinations of the histories: (level, posterior_threshold, tails)
HIST_ARGS = {1: (0.9, 0.0, 1), 2: (0.8, 0.4871, 2)}
LEVELS = [0.8, 0.9]
# (level, tails, threshold mode): threshold 0 or an estimate-sized value
COMBOS = [(lv, tl, th) for lv in LEVELS for tl in (1, 2) for th in ('zero', 'est')]
# cost times a, response times b; powers of two, so the scaled frame is exact in floating point.  a = 1/64 puts the
# non-incremental cost of the variable-cost frames at >= 1/64: far from zero for the property, below 0.1 for an
# order-of-magnitude test with a careless threshold
PAIRS = [(2.0, 1.0), (1.0 / 64, 8.0), (1.0, 4.0), (0.5, 0.25), (1.0 / 64, 1.0), (4.0, 0.5),
         (2.0 ** 36, 1.0), (2.0 ** 21, 2.0 ** -9)]    # spend booked in micro-units: figures far below 1e-8
KINDS = ['one_geo', 'split', 'split_shuffled', 'unassigned_geos', 'extra_dates', 'all_shuffled']
KEY_MEAN = 'C07:variable-cost-estimate-is-mean'
IROAS_COLS = ['estimate', 'precision', 'lower', 'upper']
RESP_COLS = ['incremental_response', 'incremental_response_lower', 'incremental_response_upper']
LIFT_COLS = ['relative_lift', 'relative_lift_lower', 'relative_lift_upper']
ALL_COLS = IROAS_COLS + ['probability', 'level', 'posterior_threshold', 'incremental_cost'] + RESP_COLS + LIFT_COLS + \
    ['scenario']


# ------------------------------------------------------------------------------------------------ TLC
def run_models(res):
  tier = TIERS[res.tier]
  shapes = ', '.join(str(s) for s in tier['shapes'])
  cvs = ', '.join(str(v) for v in COST_VARIANTS)
  pairs = ', '.join(str(v) for v in SCALE_PAIR_CODES)
  sres = res.seed % 1000003
  smod = tier['sample_mod']
  # (A) design level: the whole universe, every invariant
  cfg_a = CFG % (shapes, smod, sres, smod, 'FALSE', cvs, pairs, '\n'.join('INVARIANT ' + i for i in DESIGN_INVARIANTS))
  ra = tlc.run_tlc('IROASModel', cfg_a, tlc.run_dir('C07_design'), workers=16, timeout=3000)
  tlc.require_clean(ra, 'IROASModel (design level)')
  res.add_tlc(ra, 'IROASModel.design')
  if ra.violated:
    raise tlc.MachineryError('design-level spec IROASModel violates %s (spec bug, not a code verdict)\n%s' % (
        ra.violated, '\n'.join(ra.error_trace[-2:])[:3000]))
  # (B) emitting run over the sampled cases
  cfg_b = CFG % (shapes, smod, sres, smod, 'TRUE', cvs, pairs,
                 '\n'.join('INVARIANT ' + i for i in DESIGN_INVARIANTS + ['IEmit']) + '\nPROPERTY ITerminates')
  rb = tlc.run_tlc('IROASModel', cfg_b, tlc.run_dir('C07_emit'), workers=1, timeout=3000, coverage=True)
  tlc.require_clean(rb, 'IROASModel (emitting run)')
  res.add_tlc(rb, 'IROASModel.emit')
  if rb.violated:
    raise tlc.MachineryError('emitting run of IROASModel violates %s (spec bug)' % rb.violated)
  recs = rb.json_lines()
  for a in ACTIONS:
    if rb.coverage.get(a, (0, 0))[1] <= 0:
      raise tlc.MachineryError('vacuous model run: action %s of IROASModel was never taken (%r)' % (a, rb.coverage))
  if not recs or len(recs) > 2 * rb.init_states or len(recs) < rb.init_states:
    raise tlc.MachineryError('expected one or two emitted records per sampled initial state (%d), got %d' % (
        rb.init_states, len(recs)))
  # (C) histories, and the witness that the memo invariant needs random_state to be given
  rh = tlc.run_tlc('IROASHistory', HIST_CFG % ('FALSE', 'INVARIANT Emit'), tlc.run_dir('C07_hist'), workers=1,
                   timeout=600)
  tlc.require_clean(rh, 'IROASHistory')
  res.add_tlc(rh, 'IROASHistory')
  if rh.violated:
    raise tlc.MachineryError('IROASHistory violates %s (spec bug)' % rh.violated)
  hists = [h['calls'] for h in rh.json_lines()]
  if len(hists) != 512:
    raise tlc.MachineryError('expected 8^3 = 512 histories of three calls, got %d' % len(hists))
  rw = tlc.run_tlc('IROASHistory', HIST_CFG % ('TRUE', ''), tlc.run_dir('C07_hist_witness'), workers=1, timeout=600)
  tlc.require_clean(rw, 'IROASHistory (witness run)')
  res.add_tlc(rw, 'IROASHistory.witness')
  if rw.violated != 'MemoInvariant':
    raise tlc.MachineryError('TLC did not produce the witness that summary(random_state=None) is not a function of '
                             'the data (violated=%r)' % rw.violated)
  recs.sort(key=lambda r: (r['shape'], r['x'], r['y'], r['cv'], r['uc']))
  hists.sort(key=lambda h: [(c['obj'], c['s'], c['arg']) for c in h])
  for r in recs:
    cross_check(r)
  info = {'universe_initial_states': ra.init_states, 'emitted_records': len(recs),
          'shapes': {str(s): base.shape_text(s) for s in tier['shapes']},
          'histories': len(hists)}
  return recs, hists, info


def frac(p):
  return Fraction(p[0], p[1])


def cross_check(r):
  """Consistency of an emitted record (a failure here is a spec / tooling bug)."""
  t = r['ntest'] + r['ncool']
  nd = r['ntest'] + (r['ncool'] if r['uc'] else 0)
  if not (len(r['locnum']) == t == len(r['V']) and r['ndays'] == nd and len(r['cx']) == len(r['x']) == len(r['cy'])):
    raise tlc.MachineryError('malformed emitted record %r' % (r,))
  n = r['npre']
  nonincr = sum(r['cx'][:n]) + sum(r['cy'][:n]) + sum(r['cx'][n:n + r['ntest']])
  if nonincr != r['totcosts'] or (r['scenario'] == 'fixed') != (nonincr == 0):
    raise tlc.MachineryError('emitted scenario disagrees with the cost series: %r' % (r,))
  if r['scenario'] == 'fixed':
    cost = sum(r['cy'][n:n + nd])
    loc = Fraction(r['locnum'][nd - 1], r['nk'])
    var = Fraction(r['D'] * r['V'][nd - 1], base.prod(r['varden']))
    if not (r['full'] and cost == r['cost'] > 0 and frac(r['est']) == loc / cost and frac(r['incr_resp']) == loc and
            frac(r['bcoef']) == Fraction(1, cost) and
            Fraction(base.prod(r['scalenum']), base.prod(r['scaleden'])) == var / cost ** 2):
      raise tlc.MachineryError('emitted fixed-cost report disagrees with the response posterior: %r' % (r,))


def public(r):
  return {k: r[k] for k in ('shape', 'npre', 'ntest', 'ncool', 'x', 'y', 'lab', 'df', 'K', 'P', 'A', 'nk', 'D',
                            'resnum', 'locnum', 'V', 'varden', 'mono', 'strict', 'dest', 'dsf', 'sig2', 'cv', 'cx',
                            'cy', 'uc', 'ndays', 'scenario', 'full', 'cost', 'est', 'bcoef', 'incr_resp', 'scalenum',
                            'scaleden', 'totcosts')}


# ------------------------------------------------------------------------------------------------ real code
def make_frame(mods, r, kind, seed, a=1.0, b=1.0):
  # cost outside the two groups / the assigned dates is zero except in the non-degenerate variable-cost pattern
  rows, meta = base.build_rows(r, kind, seed, cost=(r['cx'], r['cy']), fixed=(r['cv'] != 3), salt='c07')
  df = base.to_frame(mods['pd'], rows, True)
  if a != 1.0:
    df['cost'] = df['cost'] * a
  if b != 1.0:
    df['response'] = df['response'] * b
  return df, meta


def fit(mods, df, uc):
  switched = (len(df) + int(abs(float(df['cost'].sum())))) % 3 == 0
  m = mods['iroas'].TBRiROAS(use_cooldown=(not uc) if switched else uc)
  variant = base.semantic_variant(df)
  base.refit_prelude(m, df, iroas=True, variant=variant)
  fdf, kw, _ = base.relabel(df, variant)
  m.fit(fdf, **kw)
  if switched:
    # the object was created (and fitted) with the other cooldown setting; the caller then switched it on the
    # object and on both sub-models.  The setting is read when a report is asked for.
    m.use_cooldown = uc
    m.tbr_response.use_cooldown = uc
    m.tbr_cost.use_cooldown = uc
  return m


def row_of(rep):
  if rep.shape[0] != 1:
    raise ValueError('summary has %d rows' % rep.shape[0])
  row = rep.iloc[0]
  out = {}
  for col in rep.columns:
    v = row[col]
    out[col] = str(v) if col == 'scenario' else float(v)
  return out


def same_value(u, v):
  if isinstance(u, str) or isinstance(v, str):
    return u == v
  return u == v or (math.isnan(u) and math.isnan(v))


def same_report(a, b):
  """Identical reports: same columns, same values (NaN = NaN)."""
  if set(a) != set(b):
    return 'columns differ: %r vs %r' % (sorted(a), sorted(b))
  for k in sorted(a):
    if not same_value(a[k], b[k]):
      return '%s: %r vs %r' % (k, a[k], b[k])
  return None


def unit_close(got, want, unit, rel=1e-9):
  """|got - want| <= rel * max(|want|, unit); infinities must agree exactly; NaN never agrees."""
  if math.isinf(want) or math.isinf(got):
    return got == want
  if math.isnan(want) or math.isnan(got):
    return False
  return abs(got - want) <= rel * max(abs(want), abs(unit))


def ordering(row, scenario):
  """lower <= estimate <= upper on the logged row; returns (clause, detail, key) or None."""
  lo, est, up = row['lower'], row['estimate'], row['upper']
  if not lo <= up:
    return 'LowerLeUpper', 'lower=%.12g > upper=%.12g' % (lo, up), None
  if not lo <= est <= up:
    # the class of the recorded finding: the variable-cost estimate is the mean of the simulated ratios
    return ('EstimateWithinBounds', 'lower=%.12g estimate=%.12g upper=%.12g' % (lo, est, up),
            KEY_MEAN if scenario == 'variable' else None)
  return None


def threshold(mode, est):
  return 0.0 if mode == 'zero' else 0.75 * est + 0.125


def part_fixed(mods, r, part, seed, nsims):
  """Every column of the fixed-cost report against TLC's rationals."""
  st = mods['st']
  exp = base.expected(r)
  k = r['ndays'] - 1
  cost = float(r['cost'])
  loc, sd, dfree = exp['loc'][k], exp['sd'][k], exp['df']
  est = float(frac(r['est']))
  scale = math.sqrt(Fraction(base.prod(r['scalenum']), base.prod(r['scaleden'])))
  out = []
  df, _ = make_frame(mods, r, part['kind'], seed)
  try:
    m = fit(mods, df, r['uc'])
    if bool(m._is_fixed_cost_scenario()) is not True:   # pylint: disable=protected-access
      out.append(('ScenarioLabel', '_is_fixed_cost_scenario() is False, pre-period and control test-period costs '
                  'are all zero', None))
  except Exception as e:  # pylint: disable=broad-except
    return [('FitIsTotal', '%s: %s' % (type(e).__name__, e), None)]
  for level, tails, mode in part['combos']:
    thr = threshold(mode, est)
    tag = '(level %g tails %d threshold %g)' % (level, tails, thr)
    try:
      row = row_of(m.summary(level=level, posterior_threshold=thr, tails=tails, nsims=nsims, random_state=part['rs']))
    except Exception as e:  # pylint: disable=broad-except
      out.append(('SummaryIsTotal', '%s: %s %s' % (type(e).__name__, e, tag), None))
      continue
    alpha = (1.0 - level) / tails
    q = float(st.t.ppf(alpha, dfree))
    lower = est + q * scale
    upper = float('inf') if tails == 1 else est + float(st.t.ppf(1.0 - alpha, dfree)) * scale
    r_lower = loc + q * sd
    r_upper = float('inf') if tails == 1 else loc + float(st.t.ppf(1.0 - alpha, dfree)) * sd
    checks = [
        ('ScenarioLabel', row['scenario'] == 'fixed', 'scenario=%r' % row['scenario']),
        ('EstimateIsResponseOverCost', base.close(row['estimate'], est, scale),
         'estimate=%.12g demanded loc_T/cost=%.12g' % (row['estimate'], est)),
        ('LowerIsResponseLowerOverCost', base.close(row['lower'], lower, scale),
         'lower=%.12g demanded %.12g' % (row['lower'], lower)),
        ('UpperIsResponseUpperOverCost', row['upper'] == upper if math.isinf(upper) else
         base.close(row['upper'], upper, scale), 'upper=%.12g demanded %.12g' % (row['upper'], upper)),
        ('PrecisionIsEstimateMinusLower', base.close(row['precision'], est - lower, scale),
         'precision=%.12g demanded %.12g' % (row['precision'], est - lower)),
        ('IncrementalCost', base.close(row['incremental_cost'], cost),
         'incremental_cost=%.12g demanded %.12g' % (row['incremental_cost'], cost)),
        ('IncrementalResponse', base.close(row['incremental_response'], loc, sd),
         'incremental_response=%.12g demanded %.12g' % (row['incremental_response'], loc)),
        ('IncrementalResponseLowerIsLowerTimesCost',
         base.close(row['incremental_response_lower'], r_lower, sd) and
         base.close(row['incremental_response_lower'], row['lower'] * row['incremental_cost'], sd),
         'incremental_response_lower=%.12g demanded %.12g = lower*cost (%.12g)' % (
             row['incremental_response_lower'], r_lower, row['lower'] * row['incremental_cost'])),
        ('IncrementalResponseUpperIsUpperTimesCost',
         row['incremental_response_upper'] == r_upper if math.isinf(r_upper) else
         (base.close(row['incremental_response_upper'], r_upper, sd) and
          base.close(row['incremental_response_upper'], row['upper'] * row['incremental_cost'], sd)),
         'incremental_response_upper=%.12g demanded %.12g' % (row['incremental_response_upper'], r_upper)),
        ('EstimateTimesCostIsIncrementalResponse',
         base.close(row['estimate'] * row['incremental_cost'], row['incremental_response'], sd),
         'estimate*incremental_cost=%.12g, incremental_response=%.12g' % (
             row['estimate'] * row['incremental_cost'], row['incremental_response'])),
        ('ProbabilityAboveThreshold',
         abs(row['probability'] - (1.0 - float(st.t.cdf((thr - est) / scale, dfree)))) <= 1e-9,
         'probability=%.12g demanded %.12g' % (row['probability'], 1.0 - float(st.t.cdf((thr - est) / scale, dfree)))),
        ('EchoedArguments', row['level'] == level and base.close(row['posterior_threshold'], thr, rel=1e-12),
         'level=%r posterior_threshold=%r' % (row['level'], row['posterior_threshold'])),
    ]
    for clause, ok, detail in checks:
      if not ok:
        out.append((clause, detail + ' ' + tag, None))
        break
    else:
      bad = ordering(row, 'fixed')
      if bad:
        out.append((bad[0], bad[1] + ' ' + tag, bad[2]))
  return out


def part_variable(mods, r, part, seed, nsims):
  """Label and ordering of the variable-cost report."""
  out = []
  df, _ = make_frame(mods, r, part['kind'], seed)
  try:
    m = fit(mods, df, r['uc'])
  except Exception as e:  # pylint: disable=broad-except
    return [('FitIsTotal', '%s: %s' % (type(e).__name__, e), None)]
  for level, tails, mode in part['combos']:
    thr = 0.0 if mode == 'zero' else 0.4871   # not a ratio of small integers: a degenerate constant simulated ratio cannot sit on it
    tag = '(level %g tails %d threshold %g random_state %d)' % (level, tails, thr, part['rs'])
    try:
      row = row_of(m.summary(level=level, posterior_threshold=thr, tails=tails, nsims=nsims, random_state=part['rs']))
    except Exception as e:  # pylint: disable=broad-except
      out.append(('SummaryIsTotal', '%s: %s %s' % (type(e).__name__, e, tag), None))
      continue
    if row['scenario'] != 'variable':
      out.append(('ScenarioLabel', 'scenario=%r, non-incremental cost %d %s' % (row['scenario'], r['totcosts'], tag), None))
      continue
    if tails == 1 and row['upper'] != float('inf'):
      out.append(('UpperIsInfiniteOneTailed', 'upper=%r %s' % (row['upper'], tag), None))
    bad = ordering(row, 'variable')
    if bad:
      out.append((bad[0], bad[1] + ' ' + tag, bad[2]))
  return out


def part_label(mods, r, part, seed, nsims):
  """Cost patterns with a degenerate cost model: only the scenario test is demanded."""
  del nsims
  want = r['scenario'] == 'fixed'
  df, _ = make_frame(mods, r, part['kind'], seed, a=part['a'])
  try:
    m = fit(mods, df, r['uc'])
    got = bool(m._is_fixed_cost_scenario())   # pylint: disable=protected-access
  except Exception as e:  # pylint: disable=broad-except
    return [('FitIsTotal', '%s: %s' % (type(e).__name__, e), None)]
  if got != want:
    return [('ScenarioLabel', '_is_fixed_cost_scenario()=%r, non-incremental cost %g (cost pattern %d, cost x %g)' % (
        got, r['totcosts'] * part['a'], r['cv'], part['a']), None)]
  # the label depends on the NON-incremental cost alone: however large the campaign spend itself is
  try:
    big = df.copy()
    big.loc[(big['group'] == 2) & (big['period'].isin([1, 2])), 'cost'] *= 2.0 ** 38
    got_big = bool(fit(mods, big, r['uc'])._is_fixed_cost_scenario())   # pylint: disable=protected-access
  except Exception as e:  # pylint: disable=broad-except
    return [('FitIsTotal', '%s: %s' % (type(e).__name__, e), None)]
  if got_big != want:
    return [('ScenarioLabel', '_is_fixed_cost_scenario()=%r once the treatment group\'s test-period spend is '
             'multiplied by 2^38; non-incremental cost %g (cost pattern %d, cost x %g)' % (
                 got_big, r['totcosts'] * part['a'], r['cv'], part['a']), None)]
  return []


def part_equiv(mods, r, part, seed, nsims):
  """cost x a, response x b => iROAS figures x b/a, probability and relative lift unchanged (same random_state)."""
  a, b = part['pair']
  variable = r['scenario'] == 'variable'
  out = []
  try:
    m0 = fit(mods, make_frame(mods, r, part['kind'], seed)[0], r['uc'])
    m1 = fit(mods, make_frame(mods, r, part['kind'], seed, a=a, b=b)[0], r['uc'])
  except Exception as e:  # pylint: disable=broad-except
    return [('FitIsTotal', '%s: %s' % (type(e).__name__, e), None)]
  est = float(frac(r['est'])) if not variable else 0.0
  for level, tails, mode in part['combos']:
    thr = 0.0 if mode == 'zero' else (0.4871 if variable else threshold(mode, est))
    tag = '(cost x %g, response x %g, level %g tails %d threshold %g random_state %d)' % (a, b, level, tails, thr, part['rs'])
    try:
      r0 = row_of(m0.summary(level=level, posterior_threshold=thr, tails=tails, nsims=nsims, random_state=part['rs']))
      r1 = row_of(m1.summary(level=level, posterior_threshold=thr * b / a, tails=tails, nsims=nsims,
                             random_state=part['rs']))
    except Exception as e:  # pylint: disable=broad-except
      out.append(('SummaryIsTotal', '%s: %s %s' % (type(e).__name__, e, tag), None))
      continue
    if r0['scenario'] != r['scenario'] or r1['scenario'] != r['scenario']:
      out.append(('ScenarioLabel', 'scenario %r on the frame, %r on the scaled frame, demanded %r %s' % (
          r0['scenario'], r1['scenario'], r['scenario'], tag), None))
      continue
    bad = None
    for col in IROAS_COLS:
      # the variable-cost estimate is a mean of ratios with a heavy tail: rounding of a draw near cost = 0 is amplified
      rel = 1e-6 if (variable and col in ('estimate', 'precision')) else 1e-9
      if not unit_close(r1[col], r0[col] * b / a, b / a, rel):
        bad = ('IroasScalesWithResponseOverCost', '%s=%.15g on the scaled frame, %.15g x b/a = %.15g demanded' % (
            col, r1[col], r0[col], r0[col] * b / a))
        break
    if not bad and not unit_close(r1['incremental_cost'], r0['incremental_cost'] * a, a):
      bad = ('IncrementalCostScalesWithCost', 'incremental_cost=%.15g, %.15g x a demanded' % (
          r1['incremental_cost'], r0['incremental_cost']))
    if not bad:
      for col in RESP_COLS:
        if not unit_close(r1[col], r0[col] * b, b):
          bad = ('IncrementalResponseScalesWithResponse', '%s=%.15g, %.15g x b demanded' % (col, r1[col], r0[col]))
          break
    if not bad and abs(r1['probability'] - r0['probability']) > 1e-9:
      bad = ('ProbabilityUnchanged', 'probability=%.12g on the scaled frame (threshold x b/a), %.12g before' % (
          r1['probability'], r0['probability']))
    if not bad:
      for col in LIFT_COLS:
        u, v = r0[col], r1[col]
        if math.isnan(u) or math.isnan(v) or (math.isinf(u) and math.isinf(v)):
          continue    # degenerate data / the one-tailed upper bound
        if not unit_close(v, u, 1e-3):
          bad = ('RelativeLiftUnchanged', '%s=%.15g on the scaled frame, %.15g before' % (col, v, u))
          break
    if bad:
      out.append((bad[0], bad[1] + ' ' + tag, None))
  return out


def part_history(mods, r, part, seed, nsims):
  """A TLC-chosen history of summary(random_state=s) calls: same (random_state, arguments) => identical report."""
  out = []
  try:
    long_lived = fit(mods, make_frame(mods, r, part['kind'], seed)[0], r['uc'])
  except Exception as e:  # pylint: disable=broad-except
    return [('FitIsTotal', '%s: %s' % (type(e).__name__, e), None)]
  reports = []
  for i, call in enumerate(part['calls']):
    level, thr, tails = HIST_ARGS[call['arg']]
    try:
      m = long_lived if call['obj'] == 0 else fit(mods, make_frame(mods, r, part['kind'], seed)[0], r['uc'])
      row = row_of(m.summary(level=level, posterior_threshold=thr, tails=tails, nsims=nsims, random_state=call['s']))
    except Exception as e:  # pylint: disable=broad-except
      out.append(('SummaryIsTotal', 'call %d %r: %s: %s' % (i + 1, call, type(e).__name__, e), None))
      return out
    reports.append(row)
    if row['scenario'] != 'variable':
      out.append(('ScenarioLabel', 'call %d: scenario=%r' % (i + 1, row['scenario']), None))
    first = call['first'] - 1
    if first < i:
      diff = same_report(reports[first], row)
      if diff:
        out.append(('DeterministicInRandomState', 'call %d %r repeats the key of call %d %r but reports differ: %s' % (
            i + 1, call, first + 1, part['calls'][first], diff), None))
        return out
  return out


PARTS = {'fixed': part_fixed, 'variable': part_variable, 'label': part_label, 'equiv': part_equiv,
         'history': part_history}


def plan(idx, r, hists_for_job, tier):
  """The parts replayed for one emitted record (deterministic in idx)."""
  kinds = [KINDS[(idx + j * 5) % len(KINDS)] for j in range(2)]
  rs = 1 + idx % 3
  parts = []
  if not r['full']:
    parts.append({'part': 'label', 'kind': kinds[0], 'a': 1.0})
    parts.append({'part': 'label', 'kind': kinds[1], 'a': 1.0 / 64})
    return parts
  half = [COMBOS[(idx + 2 * j) % len(COMBOS)] for j in range(4)], [COMBOS[(idx + 1 + 2 * j) % len(COMBOS)] for j in range(4)]
  if r['scenario'] == 'fixed':
    parts.append({'part': 'fixed', 'kind': kinds[0], 'combos': half[0], 'rs': rs})
    parts.append({'part': 'fixed', 'kind': kinds[1], 'combos': half[1], 'rs': rs})
  else:
    parts.append({'part': 'variable', 'kind': kinds[0], 'combos': half[0] + half[1], 'rs': rs})
    for h in hists_for_job:
      parts.append({'part': 'history', 'kind': kinds[1], 'calls': h})
  for j in range(tier['pairs_per_job']):
    pair = PAIRS[(idx // 2 + j * 3) % len(PAIRS)]
    parts.append({'part': 'equiv', 'kind': kinds[j % 2], 'pair': list(pair),
                  'combos': [COMBOS[(idx + 3 * j + 5 * i) % len(COMBOS)] for i in range(2)], 'rs': rs})
  return parts


def work(job):
  idx, r, parts, seed, nsims = job
  mods = base.load_mods()
  out = {'idx': idx, 'viol': [], 'traces': 0, 'stats': {}, 'keys': []}
  for part in parts:
    bad = PARTS[part['part']](mods, r, part, seed, nsims)
    out['traces'] += 1
    out['keys'].append((idx, part['part'], part['kind'], str(part.get('pair', part.get('a', '')))))
    tags = ['part:' + part['part'], 'kind:' + part['kind'], 'scenario:' + r['scenario'], 'cv:%d' % r['cv'],
            'use_cooldown:%s' % r['uc'], 'npre:%d' % r['npre']]
    for cb in part.get('combos', []):
      tags += ['level:%g' % cb[0], 'tails:%d' % cb[1], 'threshold:' + cb[2]]
    if 'pair' in part:
      tags.append('pair:%g,%g' % tuple(part['pair']))
    if 'calls' in part:
      tags.append('history-with-repeat:%s' % any(c['first'] < i + 1 for i, c in enumerate(part['calls'])))
      tags.append('history-with-fresh-object:%s' % any(c['obj'] == 1 for c in part['calls']))
    tags.append('outcome:' + ('ok' if not bad else ('finding' if all(b[2] for b in bad) else 'violation')))
    for tg in set(tags):
      out['stats'][tg] = out['stats'].get(tg, 0) + 1
    if bad and len(part.get('combos', [])) > 1:
      # attribute each failure to its own argument combination, so that a replay file holds exactly one failing call
      attributed = []
      for cb in part['combos']:
        sub = dict(part, combos=[cb])
        attributed += [(b, sub) for b in PARTS[part['part']](mods, r, sub, seed, nsims)]
    else:
      attributed = [(b, part) for b in bad]
    for (clause, detail, key), sub in attributed:
      out['viol'].append((clause, {'case': public(r), 'part': sub, 'seed': seed, 'nsims': nsims}, detail, key))
  return out


def run(res):
  base.load_mods()
  tier = TIERS[res.tier]
  recs, hists, info = run_models(res)
  if len(recs) > tier['max_jobs']:
    step = len(recs) / float(tier['max_jobs'])
    recs = [recs[int(i * step)] for i in range(tier['max_jobs'])]
  res.extra.update(info)
  res.extra['replayed_records'] = len(recs)
  res.exhaustive = False
  res.rule = ('TLC model-checks every (case, cost pattern) of the universe (all integer response series within the '
              'listed shapes with K > 0 and RSS > 0, six cost patterns, both use_cooldown) and emits those with '
              'Hash %% %d = seed-derived residue; every one of the 512 three-call histories is enumerated; distinct = '
              'distinct (record, part, presentation kind, scale pair) replayed into the real code; non-trivial = '
              'every one (each fits the model and reads at least one report)' % tier['sample_mod'])
  nvar = sum(1 for r in recs if r['full'] and r['scenario'] == 'variable')
  if nvar == 0:
    raise tlc.MachineryError('vacuous run: no variable-cost record emitted')
  per_job = min(8, max(2, -(-len(hists) // nvar)))
  jobs, hcur = [], (res.seed * 7) % len(hists)
  for idx, r in enumerate(recs):
    hs = []
    if r['full'] and r['scenario'] == 'variable':
      hs = [hists[(hcur + j) % len(hists)] for j in range(per_job)]
      hcur += per_job
    jobs.append((idx, r, plan(idx, r, hs, tier), res.seed, tier['nsims']))
  t0 = time.time()
  results = base.pool_map(work, jobs)
  stats, per_key = {}, {}
  for out in results:
    res.traces += out['traces']
    for k in out['keys']:
      res.case_seen(k)
    for k, v in out['stats'].items():
      stats[k] = stats.get(k, 0) + v
    for clause, case, detail, key in out['viol']:
      per_key[key] = per_key.get(key, 0) + 1
      if per_key[key] <= (300 if key is None else 60):   # known classes never crowd out a plain violation
        res.violate(clause, case, detail, finding_key=key)
  res.extra['replay_wall_s'] = round(time.time() - t0, 1)
  res.extra['failing_calls_by_class'] = {str(k): v for k, v in per_key.items()}
  res.extra['parts'] = dict(sorted(stats.items()))
  res.extra['histories_replayed'] = min(len(hists), nvar * per_job)
  res.extra['nsims'] = tier['nsims']
  for i in range(0, len(recs), max(1, len(recs) // 6)):
    r = recs[i]
    res.sample({'x': r['x'], 'y': r['y'], 'periods': r['lab'], 'cost_control': r['cx'], 'cost_treatment': r['cy'],
                'use_cooldown': r['uc'], 'scenario': r['scenario'], 'report_demanded': r['full'],
                'incremental_cost': r['cost'], 'iroas_estimate': r['est'], 'incremental_response': r['incr_resp'],
                'iroas_scale_squared': '%s / %s' % ('*'.join(map(str, r['scalenum'])), '*'.join(map(str, r['scaleden'])))})
  res.sample({'history': hists[(res.seed * 7) % len(hists)]}, cap=8)
  # vacuity guards
  need = ['part:' + p for p in PARTS] + ['kind:' + k for k in KINDS] + ['scenario:fixed', 'scenario:variable'] + \
      ['cv:%d' % v for v in COST_VARIANTS] + ['use_cooldown:True', 'use_cooldown:False', 'level:0.8', 'level:0.9',
                                               'tails:1', 'tails:2', 'threshold:zero', 'threshold:est',
                                               'history-with-repeat:True', 'history-with-fresh-object:True', 'outcome:ok'] + \
      ['pair:%g,%g' % p for p in PAIRS]
  missing = [k for k in need if stats.get(k, 0) == 0]
  if missing:
    raise tlc.MachineryError('vacuous run: never exercised %r (%r)' % (missing, stats))
  if nvar * per_job < len(hists):
    raise tlc.MachineryError('vacuous run: %d of the %d histories replayed' % (nvar * per_job, len(hists)))
  if not any(r['npre'] == 3 for r in recs) or not any(r['ncool'] > 0 for r in recs):
    raise tlc.MachineryError('vacuous run: no record with n_pre = 3 (df = 1) or none with a cooldown period')
  res.assumptions += [
      'scipy.stats.t (cdf, ppf, rvs) is trusted; the statistical correctness of the simulated percentiles of the '
      'variable-cost report and of the relative lift is not decided',
      'costs are non-negative integers; the non-incremental cost (pre-period of both groups + control test period) is '
      'exactly 0 or >= 1, and >= 1/64 on the scaled frames; cost rows of unassigned geos / unassigned dates are zero '
      'except in the non-degenerate variable-cost pattern',
      'the variable-cost series of a case are its response series with the groups exchanged (non-degenerate exactly '
      'when the response model is); patterns with a degenerate cost model are judged on the scenario test only',
      'scale factors are powers of two (cost x a, response x b), so the scaled frame is exact; the variable-cost '
      'estimate / precision are compared at 1e-6 relative (mean of heavy-tailed ratios), everything else at 1e-9',
      'an estimate outside [lower, upper] in the variable-cost scenario is the recorded finding class ' + KEY_MEAN]


def replay(res, blob):
  mods = base.load_mods()
  v = blob['case']
  res.traces += 1
  res.case_seen('replay')
  for clause, detail, key in PARTS[v['part']['part']](mods, v['case'], v['part'], v['seed'], v['nsims']):
    res.violate(clause, v, detail, finding_key=key)
