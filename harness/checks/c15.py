"""C15 - the canonical data object faithfully represents the input panel.

TLC explores DataPanel.tla: a long-format frame (partial function (geo, date) -> 0..MaxVal), an ID dtype
tag, an eligibility table over the geos of the frame plus one geo that is never in the frame (or no
table at all) and a geo index handed to the setter.  The implementation-shaped pipeline
(Pivot, Means, Order, Shares, Reconcile, SetGeoIndex, Aggregate) is checked to refine the declarative
contract, and one JSON case per finished behaviour is printed with what the CONTRACT demands.  The
universe is sampled deterministically inside TLA+ (hash predicates SampledCells / EligCode /
SampledOrder); several TLC processes (one residue class or one shape each) run side by side.

Every case is replayed into tbrmmdata.TBRMMData: the frame is rendered with concrete IDs (int or str
dtype) and dates (pd.Timestamp or 'YYYY-MM-DD' strings), its rows are shuffled, a GeoEligibility object
is built from the abstract table, and everything the contract mentions is compared.
"""
import concurrent.futures
import datetime
import fractions
import json
import multiprocessing
import os
import random
import zlib

from harness import tlc

CFG = """SPECIFICATION Spec
CONSTANTS NG = %d
 ND = %d
 MaxVal = %d
 CellMod = %d
 CellRes = %d
 EligPer = %d
 OrdModOK = %d
 OrdModBad = %d
INVARIANT TypeOK
INVARIANT RefinesTable
INVARIANT RefinesOrder
INVARIANT RefinesShares
INVARIANT RefinesReconcile
INVARIANT RefinesIndex
INVARIANT RefinesAggregates
INVARIANT ClassesPartition
INVARIANT FullIndexIsTotal
INVARIANT Emit
%s
"""

BASES = ['2019-12-30', '2020-02-27', '2021-02-27', '2020-09-29', '1999-12-30', '2020-06-01']
INT_IDS = [[2, 10, 1, 33], [1, 2, 3, 4], [30, 4, 200, 7], [0, 11, 5, 100]]
STR_IDS = [['2', '10', '1', '33'], ['b', 'a10', 'C', 'zz'], ['geo 1', 'geo-2', 'g.3', 'g_4'], ['01', '1', '001', '10']]
CLASSES = ['all', 'c', 't', 'x', 'c_fixed', 't_fixed', 'x_fixed', 'ct', 'cx', 'ctx', 'tx']
REL = 1e-12
MAX_VIOLATIONS = 40


def seq(x):
  """ToJson prints an empty TLA+ sequence / function as [] or {}."""
  if isinstance(x, dict):
    if x:
      raise tlc.MachineryError('unexpected JSON object where a sequence was expected: %r' % (x,))
    return []
  return list(x)


def group_key(case):
  return json.dumps([case['ng'], case['nd'], case['cells'], case['dtype'], case['elig_given'],
                     [seq(r) for r in case['elig_rows']]], sort_keys=True)


def presentation(key, seed):
  """Everything the replayer (not TLC) chooses: a pure function of the case key and the seed."""
  h = zlib.crc32(('%d|%s' % (seed, key)).encode())
  rnd = random.Random(h)
  return {
      'rng': h,
      'date_mode': ['ts', 'iso'][rnd.randrange(2)],
      'base': BASES[rnd.randrange(len(BASES))],
      'step': [1, 7, 1, 30][rnd.randrange(4)],
      'ids_variant': rnd.randrange(4),
      'response_float': bool(rnd.randrange(2)),
      'response_col': ['response', 'sales'][rnd.randrange(2)],
      'extra_col': bool(rnd.randrange(2)),
      'elig_geo_str': bool(rnd.randrange(2)),
      'elig_geo_index': bool(rnd.randrange(2)),
      'keep_index': bool(rnd.randrange(2)),
      # a missing cell may also arrive as a record whose response is NaN ("not reported")
      'missing_as_nan': rnd.randrange(3) == 0,
  }


def ids_of(case, pres):
  table = INT_IDS if case['dtype'] == 'int' else STR_IDS
  return table[pres['ids_variant']][:case['ng'] + 1]


def render_dates(case, pres, pd):
  base = datetime.date.fromisoformat(pres['base'])
  out = {}
  for d in range(1, case['nd'] + 1):
    day = base + datetime.timedelta(days=(d - 1) * pres['step'])
    out[d] = pd.Timestamp(day) if pres['date_mode'] == 'ts' else day.isoformat()
  return out


def build_inputs(case, pres, pd, GeoEligibility):
  """The concrete long frame (rows shuffled) and the GeoEligibility object (or None)."""
  rnd = random.Random(pres['rng'])
  ids = ids_of(case, pres)
  dates = render_dates(case, pres, pd)
  recs = []
  for g, row in enumerate(case['cells'], start=1):
    for d, v in enumerate(row, start=1):
      if v >= 0:
        v *= case.get('sgn', 1)
        recs.append((ids[g - 1], dates[d], float(v) if pres['response_float'] else int(v)))
      elif pres.get('missing_as_nan') and (g + d) % 2 == 0 and any(x >= 0 for x in row) and \
          any(r2[d - 1] >= 0 for r2 in case['cells']):
        # only where the geo and the date are present anyway (an all-NaN geo or date is another matter)
        recs.append((ids[g - 1], dates[d], float('nan')))
  rnd.shuffle(recs)
  col = pres['response_col']
  data = {'geo': [r[0] for r in recs], 'date': [r[1] for r in recs], col: [r[2] for r in recs]}
  if pres['extra_col']:
    data['cost'] = [1.5 + i for i in range(len(recs))]
  df = pd.DataFrame(data)
  if pres['keep_index']:
    order = list(range(len(recs)))
    rnd.shuffle(order)
    df.index = order            # a non-monotonic row index, as left behind by a user-side shuffle
  gelig = None
  if case['elig_given']:
    rows = []
    for g, tr in enumerate(case['elig_rows'], start=1):
      tr = seq(tr)
      if tr:
        gid = ids[g - 1]
        if pres['elig_geo_str']:
          gid = str(gid)
        rows.append((gid, tr[0], tr[1], tr[2]))
    rnd.shuffle(rows)
    edf = pd.DataFrame({'geo': [r[0] for r in rows], 'control': [r[1] for r in rows],
                        'treatment': [r[2] for r in rows], 'exclude': [r[3] for r in rows]},
                       columns=['geo', 'control', 'treatment', 'exclude'])
    if not rows:
      edf = edf.astype({'control': 'int64', 'treatment': 'int64', 'exclude': 'int64'})
    if pres['elig_geo_index']:
      edf = edf.set_index('geo')
    gelig = GeoEligibility(edf)
  return df, gelig


def close(got, want):
  """want is exact (int or Fraction)."""
  want = float(want)
  return abs(float(got) - want) <= REL * abs(want)


def same_frame(a, b):
  return (list(a.columns) == list(b.columns) and a.index.equals(b.index)
          and list(a.dtypes) == list(b.dtypes) and a.equals(b))


def check_construct(case, pres, mods):
  """Builds the object.  Returns (data or None, list of (clause, detail))."""
  pd, np, TBRMMData, GeoEligibility = mods
  ids = ids_of(case, pres)
  label = {g: str(ids[g - 1]) for g in range(1, case['ng'] + 2)}
  df_in, gelig = build_inputs(case, pres, pd, GeoEligibility)
  df_before = df_in.copy(deep=True)
  bad = []
  try:
    data = TBRMMData(df_in, pres['response_col'], gelig)
  except ValueError as e:
    if case['construct_ok']:
      return None, [('ConstructAccepts', 'ValueError on a legal input: %s' % e)]
    if not same_frame(df_in, df_before):
      bad.append(('InputUnchanged', 'the caller\'s frame was modified by a rejected construction'))
    return None, bad
  except Exception as e:  # pylint: disable=broad-except
    return None, [('ErrorType', '%s instead of %s: %s' % (type(e).__name__,
                                                         'a data object' if case['construct_ok'] else 'ValueError', e))]
  if not case['construct_ok']:
    absent = [label[g] for g in case['absent']]
    return None, [('ConstructRejects', 'eligibility rows for geos absent from the data %r include one that may not be '
                   'excluded, but construction succeeded (assignable=%r)' % (absent, sorted(data.assignable)))]
  if not same_frame(df_in, df_before):
    bad.append(('InputUnchanged', 'the caller\'s frame was modified by construction'))
  rows = [label[g] for g in case['rows']]
  dates = render_dates(case, pres, pd)
  cols = [dates[d] for d in case['cols']]
  # one row per geo, ID as string
  idx = list(data.df.index)
  if not all(isinstance(x, str) for x in idx):
    bad.append(('RowIdsAreStrings', 'index %r' % (idx,)))
  if sorted(map(str, idx)) != sorted(rows) or len(set(idx)) != len(idx):
    bad.append(('OneRowPerGeo', 'index %r, geos in the frame %r' % (idx, sorted(rows))))
    return data, bad
  # one column per date, chronological
  got_cols = list(data.df.columns)
  if len(got_cols) != len(cols) or any(a != b for a, b in zip(got_cols, cols)):
    bad.append(('OneColumnPerDateChronological', 'columns %r, expected %r' % (got_cols, cols)))
    return data, bad
  # cells, missing cells zero
  arr = data.df.to_numpy()
  pos = {x: i for i, x in enumerate(idx)}
  for i, g in enumerate(case['rows']):
    for k in range(len(cols)):
      v = arr[pos[label[g]], k]
      if not (v == case['table'][i][k]):
        bad.append(('Cells', 'cell (%r, %r) = %r, expected %r' % (label[g], cols[k], v, case['table'][i][k])))
        return data, bad
  # rows ordered by decreasing mean (ties in any order)
  total = {label[g]: case['totals'][i] for i, g in enumerate(case['rows'])}
  seq_tot = [total[x] for x in idx]
  if any(a < b for a, b in zip(seq_tot, seq_tot[1:])):
    bad.append(('RowsByDecreasingMean', 'row order %r has row sums %r over %d dates' % (idx, seq_tot, len(cols))))
  # shares
  gs = data.geo_share
  gs_idx = list(gs.index)
  if sorted(map(str, gs_idx)) != sorted(rows) or len(set(gs_idx)) != len(gs_idx):
    bad.append(('ShareIndexedByGeo', 'geo_share index %r, geos %r' % (gs_idx, sorted(rows))))
  else:
    vals = gs.to_numpy()
    for x, v in zip(gs_idx, vals):
      want = fractions.Fraction(total[x], case['grand'])
      if not close(v, want):
        bad.append(('Shares', 'geo_share[%r] = %r, expected %s' % (x, float(v), want)))
        break
  if set(data.geos_in_data) != set(rows):
    bad.append(('GeosInData', 'geos_in_data %r, expected %r' % (sorted(data.geos_in_data), sorted(rows))))
  # reconciliation and assignable
  kept = [label[g] for g in case['kept']]
  got_kept = list(data.geo_eligibility.data.index)
  if sorted(map(str, got_kept)) != sorted(kept):
    bad.append(('AbsentRowsDropped', 'eligibility rows held %r, expected %r (absent from the data: %r)' % (
        got_kept, sorted(kept), [label[g] for g in case['absent']])))
  else:
    ed = data.geo_eligibility.data
    for g, tr in zip(case['kept'], case['kept_rows']):
      got = [int(ed.loc[label[g], c]) for c in ('control', 'treatment', 'exclude')]
      if got != list(tr):
        bad.append(('EligibilityRowsKept', 'row of %r is %r, expected %r' % (label[g], got, tr)))
        break
  want_assignable = {label[g] for g in case['assignable']}
  if set(data.assignable) != want_assignable:
    bad.append(('Assignable', 'assignable %r, expected %r' % (sorted(data.assignable), sorted(want_assignable))))
  return data, bad


def check_index(data, case, pres, mods, bystander=None):
  """Sets the geo index of `data` and compares everything that depends on it."""
  np = mods[1]
  ids = ids_of(case, pres)
  label = {g: str(ids[g - 1]) for g in range(1, case['ng'] + 2)}
  order = [label[g] for g in seq(case['order'])]
  given = list(order)
  if (len(order) + case['nd']) % 2 == 0:
    # the caller has asked the eligibility object about the same list by ID before (any earlier query is harmless)
    try:
      data.geo_eligibility.get_eligible_assignments(geos=list(order))
    except Exception:  # pylint: disable=broad-except
      pass
  try:
    data.geo_index = given
  except ValueError as e:
    if case['index_ok']:
      return [('IndexAccepts', 'ValueError for an order over assignable geos %r: %s' % (order, e))]
    return []
  except Exception as e:  # pylint: disable=broad-except
    return [('ErrorType', 'geo_index = %r: %s instead of %s: %s' % (
        order, type(e).__name__, 'success' if case['index_ok'] else 'ValueError', e))]
  if not case['index_ok']:
    return [('IndexRejects', 'order %r contains a geo that is not assignable (assignable %r) but was accepted' % (
        order, sorted(data.assignable)))]
  bad = []
  got = data.geo_index
  if list(got) != order or given != order:
    bad.append(('IndexGetter', 'geo_index returns %r after setting %r' % (got, order)))
  ga = data.geo_assignments
  for name in CLASSES:
    want = set(seq(case['classes'][name]))
    have = set(getattr(ga, name))
    if have != want or not all(isinstance(x, (int, np.integer)) for x in have):
      bad.append(('IndexAssignments', 'geo_assignments.%s = %r, expected %r for order %r' % (name, sorted(have), sorted(want), order)))
      break
  ncols = len(seq(case['win']))
  for a in seq(case['aggs']):
    s = set(seq(a['s']))
    if bystander is not None:
      # another data object (another panel, its own geo index) is alive and is asked for the same positions first
      try:
        bystander.aggregate_time_series(set(s))
        bystander.aggregate_geo_share(set(s))
      except Exception:  # pylint: disable=broad-except
        pass
    ts = np.asarray(data.aggregate_time_series(set(s)))
    want_ts = seq(a['ts'])
    if ts.shape != (ncols,) or not all(close(x, w) for x, w in zip(ts, want_ts)):
      bad.append(('AggregateTimeSeries', 'positions %r of %r: %r, expected %r' % (sorted(s), order, ts.tolist(), want_ts)))
      break
    sh = data.aggregate_geo_share(set(s))
    want_sh = fractions.Fraction(a['share'][0], a['share'][1])
    if not close(sh, want_sh):
      bad.append(('AggregateGeoShare', 'positions %r of %r: %r, expected %s' % (sorted(s), order, float(sh), want_sh)))
      break
  n = len(order)
  if not bad and n >= 2 and order != order[::-1]:
    # the caller reverses ITS list in place and assigns the same object again: positions now count from the other
    # end, i.e. position p of the new index is position n-1-p of the old one
    given.reverse()
    try:
      data.geo_index = given
      for a in seq(case['aggs']):
        s2 = {n - 1 - p for p in seq(a['s'])}
        ts = np.asarray(data.aggregate_time_series(set(s2)))
        want_ts = seq(a['ts'])
        if ts.shape != (ncols,) or not all(close(x, w) for x, w in zip(ts, want_ts)):
          bad.append(('AggregateAfterReassignment', 'index reversed in place and assigned again: positions %r of %r: %r, '
                      'expected %r' % (sorted(s2), given, ts.tolist(), want_ts)))
          break
        sh = data.aggregate_geo_share(set(s2))
        if not close(sh, fractions.Fraction(a['share'][0], a['share'][1])):
          bad.append(('AggregateAfterReassignment', 'index reversed in place and assigned again: share of positions %r '
                      'of %r is %r' % (sorted(s2), given, float(sh))))
          break
    except Exception as e:  # pylint: disable=broad-except
      bad.append(('AggregateAfterReassignment', '%s: %s' % (type(e).__name__, e)))
  return bad


def load_mods():
  import numpy as np
  import pandas as pd
  from matched_markets.methodology import geoeligibility
  from matched_markets.methodology import tbrmmdata
  return pd, np, tbrmmdata.TBRMMData, geoeligibility.GeoEligibility


def replay_group(group):
  """group = (pres, [(case number, case), ...]) sharing one frame and eligibility table: the object is built
  once, its construction is judged once, and every order of the group is then handed to the setter."""
  pres, members = group
  mods = load_mods()
  first = members[0][1]
  data, bad = check_construct(first, pres, mods)
  out = []
  if bad or data is None:
    out.append((members[0][0], bad))
    out.extend((n, []) for n, _ in members[1:])   # same construction: reported once
    return out
  if first.get('preidx'):
    # the caller fixed a geo index (all assignable geos in row order) and read the aggregates before the cut
    try:
      data.geo_index = [g for g in data.df.index if g in data.assignable]
      if data.geo_index:
        data.aggregate_time_series({0})
        data.aggregate_geo_share({0})
    except Exception as e:  # pylint: disable=broad-except
      return [(members[0][0], [('IndexAccepts', 'all assignable geos in row order: %s: %s' % (type(e).__name__, e))])] + \
          [(n, []) for n, _ in members[1:]]
  if first.get('keep', 0) > 0:
    # what a searcher does to the object before it fixes the geo index (tbrmatchedmarkets.py:69)
    data.df = data.df.iloc[:, -first['keep']:]
    if (first['keep'] + len(first['rows'])) % 2 == 0:
      # ... and the table may come back with its rows in another order (rows are found by geo ID, not by position)
      data.df = data.df.iloc[::-1]
  bystander = None
  if (len(members) + first['nd'] + first['ng']) % 3 == 0:
    # a second object over a DIFFERENT panel (same geos and dates, every response tripled plus a ramp) with its own
    # index over all its assignable geos; it lives as long as the group and is consulted between the calls
    try:
      df2, gelig2 = build_inputs(first, pres, mods[0], mods[3])
      col = pres['response_col']
      df2[col] = [3.0 * float(v) + 11.0 + (j % 7) if v == v else v for j, v in enumerate(df2[col])]
      bystander = mods[2](df2, col, gelig2)
      bystander.geo_index = [g for g in bystander.df.index if g in bystander.assignable]
    except Exception:  # pylint: disable=broad-except
      bystander = None
  for n, case in members:
    if not case['has_order']:
      raise tlc.MachineryError('a finished case of an accepted construction has no order')
    out.append((n, check_index(data, case, pres, mods, bystander)))
  return out


def replay_chunk(groups):
  res = []
  for g in groups:
    res.extend(replay_group(g))
  return res


def configs(tier, seed):
  """(label, NG, ND, MaxVal, CellMod, CellRes, EligPer, OrdModOK, OrdModBad); one TLC process each."""
  out = []
  if tier == 'thorough':
    nproc, mod = 8, 56
    base = seed % mod
    for i in range(nproc):     # together: every 3x3 frame with Hash % mod = base
      out.append(('3x3v2/%d' % i, 3, 3, 2, mod * nproc, base + mod * i, 5, 8, 40))
    out.append(('2x2v2', 2, 2, 2, 1, 0, 6, 2, 6))
    out.append(('3x2v2', 3, 2, 2, 6, seed % 6, 4, 8, 40))
    out.append(('2x3v2', 2, 3, 2, 6, seed % 6, 4, 4, 12))
    out.append(('1x3v2', 1, 3, 2, 1, 0, 8, 1, 1))
  else:
    out.append(('3x3v2', 3, 3, 2, 2000, seed % 2000, 4, 8, 40))
    out.append(('3x3v1', 3, 3, 1, 160, seed % 160, 4, 8, 40))
    out.append(('3x2v2', 3, 2, 2, 40, seed % 40, 4, 8, 40))
    out.append(('2x3v2', 2, 3, 2, 64, seed % 64, 4, 4, 12))
    out.append(('2x2v2', 2, 2, 2, 6, seed % 6, 4, 2, 6))
  return out


def run_one_tlc(cfg):
  label, ng, nd, mv, cm, cr, ep, ok, badm = cfg
  # liveness (every behaviour reaches done / a ValueError) is checked on the smallest universe only
  text = CFG % (ng, nd, mv, cm, cr, ep, ok, badm, 'PROPERTY Terminates' if label == '2x2v2' else '')
  name = 'C15_' + label.replace('/', '_')
  r = tlc.run_tlc('DataPanel', text, tlc.run_dir(name), workers=1, timeout=3000,
                  java_opts=['-XX:ParallelGCThreads=2', '-Xmx3g'])
  return label, r


def counters():
  return {'construct_ok': 0, 'construct_valueerror': 0, 'index_ok': 0, 'index_valueerror': 0,
          'absent_rows_dropped': 0, 'table_subset_of_data': 0, 'table_equal_to_data': 0, 'no_table': 0,
          'missing_cells': 0, 'tied_means': 0, 'must_exclude_geo_in_data': 0, 'empty_order': 0,
          'full_order': 0, 'int_ids': 0, 'str_ids': 0, 'dates_as_timestamps': 0, 'dates_as_strings': 0,
          'class_c_fixed': 0, 'class_t_fixed': 0, 'class_ct': 0, 'class_cx': 0, 'class_ctx': 0, 'class_tx': 0,
          'subsets_aggregated': 0, 'negative_responses': 0, 'restricted_to_recent_dates': 0}


def classify(case, pres, cnt):
  if not case['construct_ok']:
    cnt['construct_valueerror'] += 1
  else:
    cnt['construct_ok'] += 1
    if case['absent']:
      cnt['absent_rows_dropped'] += 1
    if not case['elig_given']:
      cnt['no_table'] += 1
    elif set(case['kept']) < set(case['rows']):
      cnt['table_subset_of_data'] += 1
    elif not case['absent']:
      cnt['table_equal_to_data'] += 1
    if len(case['kept']) > len(case['assignable']):
      cnt['must_exclude_geo_in_data'] += 1
    if case['index_ok']:
      cnt['index_ok'] += 1
      order = seq(case['order'])
      if not order:
        cnt['empty_order'] += 1
      if set(order) == set(case['rows']):
        cnt['full_order'] += 1
      for name in ('c_fixed', 't_fixed', 'ct', 'cx', 'ctx', 'tx'):
        if seq(case['classes'][name]):
          cnt['class_' + name] += 1
      cnt['subsets_aggregated'] += len(seq(case['aggs']))
    else:
      cnt['index_valueerror'] += 1
  if any(v < 0 for row in case['cells'] for v in row) and len(case['rows']) * len(case['cols']) > sum(
      1 for row in case['cells'] for v in row if v >= 0):
    cnt['missing_cells'] += 1
  if len(set(case['totals'])) < len(case['totals']):
    cnt['tied_means'] += 1
  if case.get('sgn', 1) < 0:
    cnt['negative_responses'] += 1
  if case.get('keep', 0) > 0 and case['index_ok']:
    cnt['restricted_to_recent_dates'] += 1
  cnt['int_ids' if case['dtype'] == 'int' else 'str_ids'] += 1
  cnt['dates_as_timestamps' if pres['date_mode'] == 'ts' else 'dates_as_strings'] += 1


def run(res):
  mods = load_mods()     # import before forking
  thorough = res.tier == 'thorough'
  cfgs = configs(res.tier, res.seed)
  with concurrent.futures.ThreadPoolExecutor(max_workers=min(len(cfgs), 12)) as ex:
    results = list(ex.map(run_one_tlc, cfgs))
  cases = []
  for label, r in results:
    tlc.require_clean(r, 'DataPanel ' + label)
    res.add_tlc(r, 'DataPanel ' + label)
    if r.violated:
      raise tlc.MachineryError('design-level spec DataPanel (%s) violates %s (spec bug, not a code verdict)' % (label, r.violated))
    got = r.json_lines()
    if not got or len(got) != len(r.printed):
      raise tlc.MachineryError('DataPanel %s: %d printed lines, %d decoded cases' % (label, len(r.printed), len(got)))
    for c in got:
      c['universe'] = label.split('/')[0]
    cases.extend(got)
  # group the cases that share a construction (frame, dtype, table)
  groups = {}
  for n, case in enumerate(cases):
    groups.setdefault(group_key(case), []).append((n, case))
  work = []
  cnt = counters()
  pres_of = {}
  for key, members in groups.items():
    pres = presentation(key, res.seed)
    work.append((pres, members))
    for n, case in members:
      pres_of[n] = pres
      classify(case, pres, cnt)
      res.case_seen(n)
      res.traces += 1
  nproc = min(16, os.cpu_count() or 1)
  chunks = [work[i::nproc * 4] for i in range(nproc * 4)]
  chunks = [c for c in chunks if c]
  ctx = multiprocessing.get_context('fork')
  with ctx.Pool(nproc) as pool:
    outcomes = [x for part in pool.map(replay_chunk, chunks) for x in part]
  if len(outcomes) != len(cases):
    raise tlc.MachineryError('replayed %d of %d cases' % (len(outcomes), len(cases)))
  outcomes.sort(key=lambda x: x[0])
  for n, bad in outcomes:
    for clause, detail in bad:
      if len(res.violations) < MAX_VIOLATIONS:
        res.violate(clause, {'case': cases[n], 'pres': pres_of[n]}, detail)
  # evidence
  step = max(len(cases) // 5, 1)
  for n in range(3, len(cases), step):
    c = cases[n]
    p = pres_of[n]
    ids = ids_of(c, p)
    res.sample({'universe': c['universe'], 'cells(-1=no row)': c['cells'], 'ids': ids, 'id_dtype': c['dtype'],
                'dates': p['date_mode'], 'eligibility': [seq(r) for r in c['elig_rows']] if c['elig_given'] else None,
                'expect_construct_ok': c['construct_ok'], 'expect_assignable': c['assignable'],
                'geo_index': seq(c['order']) if c['has_order'] else None, 'expect_index_ok': c['index_ok'],
                'expect_aggregates': seq(c['aggs'])[:3]})
  res.extra['outcome_classes'] = cnt
  res.extra['constructions'] = len(groups)
  res.extra['tlc_configs'] = [dict(zip(('label', 'NG', 'ND', 'MaxVal', 'CellMod', 'CellRes', 'EligPer', 'OrdModOK', 'OrdModBad'), c))
                              for c in cfgs]
  res.exhaustive = False
  res.rule = ('universe: long frames = all partial functions (geo 1..NG, date 1..ND) -> 0..MaxVal with a positive total, '
              'ID dtype int/str, eligibility = no table or any function geos 1..NG+1 -> {not listed, seven legal triples} '
              '(geo NG+1 is never in the frame), geo index = any injective sequence over 1..NG+1. Sampled deterministically '
              'inside TLA+ (no randomness in TLC): a frame is taken iff HashCells(frame) % CellMod = CellRes (CellRes = seed % CellMod; '
              'thorough: the 3x3 residue class is split over 8 TLC processes), per frame "no table" plus EligPer tables '
              'TableOf(Mix(Mix(HashCells, j), j+5) % 8^(NG+1)), j = 1..EligPer, the dtype by hash parity, per accepted construction '
              'the order "rows of .df that are assignable" plus every legal order with Mix(StateHash, hash(order)) % OrdModOK = 0 and every illegal '
              'one with ... % OrdModBad = 0 (constants per run under tlc_configs). One case = one emitted (frame, dtype, table, order) '
              'behaviour (rejected constructions have no order); distinct = distinct cases replayed, each against the real code with '
              'a seed-derived presentation (row shuffle, concrete IDs, dates as Timestamps or ISO strings, int/float response, '
              'extra column, table rows shuffled / geo as index / IDs as strings); non-trivial = every case.')
  res.assumptions += [
      'duplicate (geo, date) rows are outside the property and cannot be expressed in the model',
      'geo indices are handed to the setter as lists of string IDs without repetitions',
      'cell values are small non-negative integers; floating point error of means/shares is bounded by the 1e-12 relative tolerance',
      'order of geo_share relative to .df is not judged (only its labels and values)',
  ]
  need = ['construct_ok', 'construct_valueerror', 'index_ok', 'index_valueerror', 'absent_rows_dropped',
          'table_subset_of_data', 'table_equal_to_data', 'no_table', 'missing_cells', 'tied_means',
          'must_exclude_geo_in_data', 'empty_order', 'full_order', 'int_ids', 'str_ids', 'dates_as_timestamps',
          'dates_as_strings', 'class_c_fixed', 'class_t_fixed', 'class_ct', 'class_cx', 'class_ctx', 'class_tx',
          'subsets_aggregated', 'negative_responses', 'restricted_to_recent_dates']
  empty = [k for k in need if cnt[k] == 0]
  if empty:
    raise tlc.MachineryError('vacuous run: no case of class(es) %s' % ', '.join(empty))
  floor = 50000 if thorough else 2500
  if len(cases) < floor:
    raise tlc.MachineryError('only %d cases emitted (expected at least %d)' % (len(cases), floor))


def replay(res, blob):
  mods = load_mods()
  c = blob['case']
  case, pres = c['case'], c['pres']
  res.traces += 1
  res.case_seen('replay')
  data, bad = check_construct(case, pres, mods)
  if not bad and data is not None and case['has_order']:
    bad = check_index(data, case, pres, mods)
  for clause, detail in bad:
    res.violate(clause, c, detail)
