"""C14 - results ordered best-first and capped; the bounded queue keeps the top k.

Container half (HeapDict.tla / HeapDictTrace.tla):
 1. design level: TLC checks TopK / OutOK / ReadOnly over all push sequences within bounds;
 2. (R) every push history TLC enumerates is replayed into the real HeapDict, get_result() read after every
    push and twice at the end, compared with the value multiset the spec demands;
 3. (T) long random push/get runs of the real object are validated step by step against the spec.
Search half: result lists of both searches (recorded by the shared search driver) are judged by MMTrace.tla
(clauses CapRespected / BestFirst), see harness/mm.py.
"""
import json
import os
import random

from harness import tlc

KEYNAMES = ['k1', 'k2', 'k3', 'k4']

DESIGN_CFG = """SPECIFICATION Spec
CONSTANTS Keys = {"a","b"}
 Vals = {1,2,3}
 Tags = {"p","q"}
 KMax = %d
 MaxPush = %d
INVARIANT TopK
INVARIANT OutOK
PROPERTY ReadOnly
%s
"""

TRACE_CFG = """SPECIFICATION TraceSpec
CONSTANTS Keys = {"k1","k2","k3","k4"}
 Vals = {0}
 Tags = {0}
 KMax = 0
 MaxPush = 0
INVARIANT TopK
"""


def make_item_class():
  class Item:
    """Ordered by value only; tag and serial make equal items distinguishable."""
    __slots__ = ('val', 'tag', 'serial')

    def __init__(self, val, tag, serial):
      self.val, self.tag, self.serial = val, tag, serial

    def __lt__(self, other):
      return self.val < other.val

    def __repr__(self):
      return 'Item(%r,%r,#%r)' % (self.val, self.tag, self.serial)
  return Item


def replay_history(heapdict_mod, case):
  """Replays one TLC-enumerated history; returns None or (clause, detail)."""
  try:
    return _replay_history(heapdict_mod, case)
  except Exception as e:  # pylint: disable=broad-except
    return 'CallsAreTotal', '%s: %s on history %r cap %d' % (type(e).__name__, e, [
        (x['key'], x['val'], x['tag']) for x in case['hist']], case['cap'])


def _replay_history(heapdict_mod, case):
  Item = make_item_class()
  h = heapdict_mod.HeapDict(case['cap'])
  hist = case['hist']
  pushed = {}
  for i, ev in enumerate(hist):
    it = Item(ev['val'], ev['tag'], i + 1)
    h.push(ev['key'], it)
    pushed.setdefault(ev['key'], []).append(it)
    res = h.get_result()
    # prefix property (cheap, also covered by the prefix's own case): descending and capped after every push
    for k, lst in res.items():
      if len(lst) > case['cap']:
        return 'Capped', 'after push %d key %r holds %d > cap %d' % (i + 1, k, len(lst), case['cap'])
      if any(lst[j].val < lst[j + 1].val for j in range(len(lst) - 1)):
        return 'DescendingOrder', 'after push %d: %r' % (i + 1, lst)
  r1 = h.get_result()
  r2 = h.get_result()
  want = case['want']
  touched = sorted(k for k in want if want[k]['touched'])
  if sorted(r1.keys()) != touched:
    return 'ReportedKeysAreTouchedKeys', 'keys %r, expected %r' % (sorted(r1.keys()), touched)
  for k in touched:
    lst = r1[k]
    vals = [x.val for x in lst]
    counts = want[k]['counts']          # index v-1 -> multiplicity of value v (Vals = 1..len)
    want_vals = sorted([v + 1 for v, c in enumerate(counts) for _ in range(c)], reverse=True)
    if vals != want_vals:
      return 'TopKMultiset', 'key %r: got values %r, spec demands %r (history %r, cap %d)' % (
          k, vals, want_vals, [(e['key'], e['val'], e['tag']) for e in hist], case['cap'])
    if len({id(x) for x in lst}) != len(lst) or any(all(x is not p for p in pushed[k]) for x in lst):
      return 'ReportedItemsWerePushed', 'key %r: %r' % (k, lst)
    if [id(x) for x in r2[k]] != [id(x) for x in lst]:
      return 'ReadingDoesNotChangeTheContainer', 'second read differs for key %r' % k
  r1[touched[0]].append('junk') if touched else None   # the snapshot is a copy: mutating it must not leak
  r3 = h.get_result()
  for k in touched:
    if [id(x) for x in r3[k]] != [id(x) for x in r2[k]]:
      return 'SnapshotIsACopy', 'mutating a returned list changed the container (key %r)' % k
  return None


def record_trace(heapdict_mod, rng, tid):
  """Runs the real HeapDict on a random push/get sequence, logging a snapshot after every call."""
  Item = make_item_class()
  cap = rng.choice([0, 1, 1, 2, 3, 5, 8, 2.0, 3.0])      # an integer-valued float is a capacity, too
  nkeys = rng.randint(1, 4)
  flavour = rng.choice(['str', 'int', 'float', 'mixed'])
  actual = []
  for j in range(nkeys):
    f = flavour if flavour != 'mixed' else rng.choice(['str', 'int', 'float'])
    actual.append({'str': ['', 'key', 'Key', '0'][j], 'int': [0, -7, 3, 10 ** 12][j],
                   'float': [0.5, -1.5, 1e300, 2.25][j]}[f])
  name_of = {a: KEYNAMES[j] for j, a in enumerate(actual)}
  h = heapdict_mod.HeapDict(cap)
  npush = rng.choice([3, 8, 20, 40, 80])
  span = rng.choice([2, 3, 5, 1000])
  events = []
  serial = 0

  def snapshot():
    res = h.get_result()
    return {name_of[k]: [[x.val, x.tag, x.serial] for x in lst] for k, lst in res.items()}

  crash = None
  try:
    for _ in range(npush):
      key = rng.choice(actual)
      serial += 1
      it = Item(rng.randint(-span, span), rng.randint(0, 2), serial)
      h.push(key, it)
      events.append({'op': 'push', 'key': name_of[key], 'val': it.val, 'tag': it.tag, 'after': snapshot()})
      if rng.random() < 0.15:
        events.append({'op': 'get', 'key': '', 'val': 0, 'tag': 0, 'after': snapshot()})
    events.append({'op': 'get', 'key': '', 'val': 0, 'tag': 0, 'after': snapshot()})
  except Exception as e:  # pylint: disable=broad-except
    crash = '%s: %s after %d events' % (type(e).__name__, e, len(events))
  return {'id': tid, 'cap': int(cap), 'events': events, 'keytypes': flavour, 'crash': crash}


def validate_traces(res, traces, label):
  rundir = tlc.run_dir('C14_' + label)
  path = os.path.join(rundir, 'traces.json')
  with open(path, 'w') as f:
    json.dump({'traces': [{'id': t['id'], 'cap': t['cap'], 'events': t['events']} for t in traces]}, f)
  r = tlc.run_tlc('HeapDictTrace', TRACE_CFG, rundir, workers=1, env={'TRACE_FILE': path}, timeout=3000)
  tlc.require_clean(r, 'HeapDictTrace')
  if r.violated:
    raise tlc.MachineryError('HeapDictTrace: invariant %s violated on a trace state' % r.violated)
  res.add_tlc(r, 'HeapDictTrace.' + label)
  verdicts = {v['id']: v for v in r.json_lines() if 'tid' in v}
  if len(verdicts) != len(traces):
    raise tlc.MachineryError('HeapDictTrace judged %d of %d traces' % (len(verdicts), len(traces)))
  return verdicts


def run_apalache(res):
  """Unbounded part: TopK of one key as an inductive invariant (HeapDictInd.tla), discharged by Apalache."""
  import shutil
  import subprocess
  exe = shutil.which('apalache-mc')
  if exe is None:
    res.note('apalache-mc not found: the inductive invariant of HeapDictInd.tla was not discharged in this run')
    return
  rundir = tlc.run_dir('C14_apalache')
  shutil.copy(os.path.join(tlc.SPEC_DIR, 'HeapDictInd.tla'), rundir)
  out = {}
  for name, init, length in (('initiation', 'Init', 0), ('consecution', 'IndInit', 1)):
    try:
      p = subprocess.run([exe, 'check', '--cinit=CInit', '--init=' + init, '--inv=IndInv', '--length=%d' % length,
                          '--out-dir=' + os.path.join(rundir, 'out'), 'HeapDictInd.tla'], cwd=rundir,
                         stdout=subprocess.PIPE, stderr=subprocess.STDOUT, text=True, timeout=600)
    except subprocess.TimeoutExpired:
      res.note('apalache %s timed out; not counted' % name)
      return
    ok = 'The outcome is: NoError' in p.stdout and p.returncode == 0
    out[name] = 'NoError' if ok else 'Error'
    if not ok:
      raise tlc.MachineryError('Apalache does not discharge %s of HeapDictInd!IndInv:\n%s' % (name, p.stdout[-1200:]))
  res.extra['inductive_invariant'] = dict(out, module='HeapDictInd.tla', invariant='IndInv (TopK of one key)',
                                          scope='any number of pushes, any integer values, capacity K in 0..4',
                                          tool='apalache-mc 0.58 (--init=IndInit --inv=IndInv --length=1)')
  shutil.rmtree(os.path.join(rundir, 'out'), ignore_errors=True)


def run(res):
  from matched_markets.methodology import heapdict
  thorough = res.tier == 'thorough'
  run_apalache(res)
  # 1. design level
  kmax, maxpush = (3, 5) if thorough else (3, 4)
  r = tlc.run_tlc('HeapDict', DESIGN_CFG % (kmax, maxpush, ''), tlc.run_dir('C14_design'), workers=16, timeout=3000)
  tlc.require_clean(r, 'HeapDict')
  if r.violated:
    raise tlc.MachineryError('design-level spec HeapDict violates %s' % r.violated)
  res.add_tlc(r, 'HeapDict.design')
  # 2. enumerate histories and replay
  kmax2, maxpush2 = (3, 4) if thorough else (2, 3)
  r = tlc.run_tlc('HeapDict', DESIGN_CFG % (kmax2, maxpush2, 'INVARIANT Emit'), tlc.run_dir('C14_emit'), workers=1,
                  timeout=3000)
  tlc.require_clean(r, 'HeapDict(emit)')
  if r.violated:
    raise tlc.MachineryError('design-level spec HeapDict violates %s' % r.violated)
  res.add_tlc(r, 'HeapDict.emit')
  seen = set()
  n_evict = 0
  for case in r.json_lines():
    key = (case['cap'], tuple((e['key'], e['val'], e['tag']) for e in case['hist']))
    if key in seen:
      continue          # same history reached with a different tie-break inside the spec
    seen.add(key)
    res.case_seen(key)
    res.traces += 1
    per_key = {}
    for e in case['hist']:
      per_key[e['key']] = per_key.get(e['key'], 0) + 1
    if any(c > case['cap'] for c in per_key.values()):
      n_evict += 1
    bad = replay_history(heapdict, case)
    if bad:
      res.violate(bad[0], {'kind': 'history', 'cap': case['cap'], 'hist': case['hist'], 'want': case['want']}, bad[1])
      if len(res.violations) > 20:
        break
    if len(seen) % 1500 == 11:
      res.sample({'cap': case['cap'], 'pushes': [(e['key'], e['val'], e['tag']) for e in case['hist']],
                  'demanded_value_counts': {k: v['counts'] for k, v in case['want'].items()}})
  if n_evict == 0:
    raise tlc.MachineryError('vacuous: no enumerated history overflowed a queue')
  res.extra['histories_with_eviction'] = n_evict
  # 3. trace validation of long random runs
  rng = random.Random(res.seed * 7919 + 14)
  ntr = 600 if thorough else 120
  traces = [record_trace(heapdict, rng, i + 1) for i in range(ntr)]
  verdicts = validate_traces(res, traces, 'random')
  for t in traces:
    v = verdicts[t['id']]
    res.traces += 1
    res.case_seen(('trace', t['id']))
    if t.get('crash'):
      res.violate('CallsAreTotal', {'kind': 'trace', 'cap': t['cap'], 'events': t['events']}, t['crash'])
    if not v['ok']:
      ev = t['events'][v['l'] - 1]
      res.violate(v['clause'], {'kind': 'trace', 'cap': t['cap'], 'events': t['events'][:v['l']]},
                  'event %d (%s %s) rejected by HeapDictTrace: %s' % (v['l'], ev['op'], ev['key'], v['clause']))
  res.sample({'trace_cap': traces[0]['cap'], 'first_events': traces[0]['events'][:3]})
  res.extra['trace_events'] = sum(len(t['events']) for t in traces)
  # 4. search half: design-level TopK of the exhaustive loop + recorded result lists judged by MMTrace
  from harness import mm, mmdesign
  mmdesign.run_design_level(res, 'C14')
  _, _, stats = mm.run_search_clauses(res, owner='C14', count=(1500 if thorough else 140))
  mm.vacuity_guard(res, 'C14', stats)
  mm.run_large_greedy(res, 'C14')
  res.exhaustive = False
  res.rule = ('(R) all push histories over 2 keys x 3 values x 2 tags, cap 0..%d, length <= %d, enumerated by TLC and '
              'replayed; (T) %d random runs (cap 0..8, 1-4 keys of str/int/float type, 3-80 pushes, many ties) '
              'validated event by event; distinct = distinct histories / runs; non-trivial = all (histories that '
              'overflow a queue counted in histories_with_eviction)') % (kmax2, maxpush2, ntr)
  res.assumptions += ['heapq is modelled by its contract (heappushpop = enter-then-drop-a-minimum iff min < item)',
                      'items compare by value only; tie-breaks among equal values are left open by the spec']


def replay(res, blob):
  from matched_markets.methodology import heapdict
  c = blob['case']
  res.case_seen('replay')
  res.traces += 1
  if c.get('kind') == 'history':
    bad = replay_history(heapdict, c)
    if bad:
      res.violate(bad[0], c, bad[1])
  elif c.get('kind') == 'trace':
    # re-run the same push sequence on the current code and validate it again
    Item = make_item_class()
    h = heapdict.HeapDict(c['cap'])
    events = []
    serial = 0
    for ev in c['events']:
      if ev['op'] == 'push':
        serial += 1
        h.push(ev['key'], Item(ev['val'], ev['tag'], serial))
      snap = {k: [[x.val, x.tag, x.serial] for x in lst] for k, lst in h.get_result().items()}
      events.append(dict(ev, after=snap))
    verdicts = validate_traces(res, [{'id': 1, 'cap': c['cap'], 'events': events}], 'replay')
    if not verdicts[1]['ok']:
      res.violate(verdicts[1]['clause'], c, 'still rejected at event %d' % verdicts[1]['l'])
  else:
    from harness import mm
    mm.replay_case(res, blob)
