"""C08 - design diagnostics never serve stale values after their inputs change.

DiagCache.tla models TBRMMDiagnostics as a cache state machine over series *versions*.
 1. design level: the complete state graph (no depth bound, history hidden by VIEW) satisfies NoStale / ServedFresh /
    NoneIffNoX for the current code (Fixes = {"D1"}); the pre-repair variant (Fixes = {}) must still yield the stale
    tests_ok counterexample (guards against a spec that can no longer see the defect).
 2. (R) behaviours chosen by TLC - all of them up to a depth, plus thousands of simulated deeper ones - are stepped
    through one real object per behaviour.  After every action every public quantity is read off a deep copy (so that
    observing does not fill caches) and compared with a freshly built object holding the same current series; the
    acting object's own read result is compared with the value of the version the spec says is served.
"""
import copy
import random

import numpy as np

from harness import par as par_mod
from harness import tlc

CFG = """SPECIFICATION Spec
CONSTANTS NY = 2
 NX = 4
 Fixes = %s
 MaxLen = %d
INVARIANT NoStale
INVARIANT ServedFresh
INVARIANT NoneIffNoX
%s
"""

QUANTITIES = ['corr', 'ri', 'fit', 'aa', 'bb', 'dw', 'ok', 'corr_test', 'tbrfit']


def flat(v):
  """Canonical, comparable form of anything a diagnostics object reports."""
  if v is None:
    return None
  if isinstance(v, (bool, np.bool_)):
    return bool(v)
  if isinstance(v, (int, float, np.integer, np.floating)):
    f = float(v)
    return 'nan' if f != f else f
  if isinstance(v, np.ndarray):
    return [flat(x) for x in v.tolist()]
  if isinstance(v, (tuple, list)):
    return [flat(x) for x in v]
  return repr(v)


def read(d, q):
  if q == 'corr':
    return d.corr
  if q == 'ri':
    return d.required_impact
  if q == 'fit':
    return d.pretestfit
  if q == 'aa':
    return d.aatest
  if q == 'bb':
    return d.bbtest
  if q == 'dw':
    return d.dwtest
  if q == 'ok':
    return d.tests_ok
  if q == 'corr_test':
    return d.corr_test
  if q == 'tbrfit':
    return d.tbrfit(3.25, 7.5)
  if q == 'x':
    return d.x
  if q == 'y':
    return d.y
  raise KeyError(q)


def make_library(seed, diag_cls, par, level=0.0):
  """2 treatment series x 3 control series such that every quantity differs between any two versions and the joint
  verdict is True for some pairs and False for others."""
  for attempt in range(2000):
    rng = np.random.RandomState(seed + attempt)
    n = 40
    base = np.cumsum(rng.normal(size=n)) * 2 + 100
    ys = [3 * base + rng.normal(size=n) * 0.2 + 5, 2 * base[::-1] + rng.normal(size=n) * 0.2 + 11]
    xs = [base + rng.normal(size=n) * 0.05, rng.normal(size=n) * 3 + 50, base[::-1] + rng.normal(size=n) * 0.05]
    # the second treatment series is shorter (the control series are cut to the length of the current treatment series),
    # and the fourth control series is constant (no regression fit exists)
    ys[1] = ys[1][:n - 9]
    xs.append([37] * n)
    # the second control series is integer-typed (counts): a later real-valued series must not inherit its dtype
    xs[1] = np.rint(xs[1]).astype(np.int64)
    if level:
      # the same shapes on top of a level that dwarfs the variation: two different series are then "close" in
      # relative terms although every derived quantity differs
      ys = [v + level for v in ys]
      xs = [(np.asarray(v) + int(level) if np.asarray(v).dtype.kind == 'i' else np.asarray(v) + level) for v in xs]
    fresh = {}
    for yi in (1, 2):
      for xi in (0, 1, 2, 3, 4):
        d = diag_cls(ys[yi - 1], par)
        if xi:
          d.x = xs[xi - 1][:len(ys[yi - 1])]
        fresh[(yi, xi)] = {q: flat(read(d, q)) for q in QUANTITIES + ['x', 'y']}
    oks = {fresh[(yi, xi)]['ok'] for yi in (1, 2) for xi in (1, 2, 3)}
    if oks != {True, False}:
      continue
    distinct = True
    for q in QUANTITIES:
      if q in ('ok', 'corr_test'):
        continue
      vals = [repr(fresh[(yi, xi)][q]) for yi in (1, 2) for xi in (1, 2, 3)]
      if len(set(vals)) != len(vals):
        distinct = False
    # each y must see both verdicts so that a stale verdict is observable whatever the current y is
    for yi in (1, 2):
      if {fresh[(yi, xi)]['ok'] for xi in (1, 2, 3)} != {True, False}:
        distinct = False
    if distinct:
      return ys, xs, fresh
  raise tlc.MachineryError('could not build a series library with distinguishable versions')


def replay_behaviour(diag_cls, par, lib, hist, delivery='fresh'):
  """Steps one spec behaviour through a real object. Returns None or (clause, detail, step).

  delivery 'buffer': the caller keeps ONE float array per series role, overwrites it in place with the next version
  and assigns the same array object again (real-valued versions only; the integer-typed one is handed over as it is)."""
  ys, xs, fresh = lib
  yv = int(hist[0]['arg'])
  xv = 0
  bufx = np.zeros(len(ys[0]), dtype=float)
  bufy = np.zeros(len(ys[0]), dtype=float)

  def deliver(buf, v):
    a = np.asarray(v)
    if delivery != 'buffer' or a.dtype.kind != 'f' or len(a) > len(buf):
      return v
    if len(a) == len(buf):
      buf[:] = a
      return buf
    part = buf[:len(a)]      # a shorter series: a view of the same memory
    part[:] = a
    return part
  d = diag_cls(deliver(bufy, ys[yv - 1]), par)
  for step, ev in enumerate(hist[1:], start=1):
    a = ev['a']
    arg = ev['arg'].strip('"')
    try:
      if a == 'setx':
        xv = int(arg)
        d.x = None if xv == 0 else deliver(bufx, xs[xv - 1][:len(ys[yv - 1])])
      elif a == 'sety':
        yv = int(arg)
        xv = 0
        d.y = deliver(bufy, ys[yv - 1])
      else:
        got = flat(read(d, arg))
        served = (ev['y'], ev['x'])
        if served == (-1, -1):
          want = None
        else:
          want = fresh[served][arg]
        if got != want:
          return ('ReadServesTheVersionTheSpecServes',
                  'step %d read(%s) with current series (y%d, x%d): got %r, spec serves version %r = %r' % (
                      step, arg, yv, xv, got, served, want), step)
      # observe everything off a deep copy and compare with a fresh object on the current series
      obs = copy.deepcopy(d)
      for q in ['x', 'y'] + QUANTITIES:
        got = flat(read(obs, q))
        want = fresh[(yv, xv)][q]
        if got != want:
          return ('ReportsEqualFreshObject',
                  'after step %d (%s %s) with current series (y%d, x%d): %s reports %r, a fresh object reports %r' % (
                      step, a, arg, yv, xv, q, got, want), step)
    except Exception as e:  # pylint: disable=broad-except
      return ('CallsAreTotal', 'step %d (%s %s): %s: %s' % (step, a, arg, type(e).__name__, e), step)
  return None


def run(res):
  from matched_markets.methodology import tbrmmdiagnostics, tbrmmdesignparameters
  thorough = res.tier == 'thorough'
  diag_cls = tbrmmdiagnostics.TBRMMDiagnostics
  par = tbrmmdesignparameters.TBRMMDesignParameters(n_test=7, iroas=1.0)
  # 1. design level, complete graph
  r = tlc.run_tlc('DiagCache', CFG % ('{"D1"}', 100000, 'VIEW View'), tlc.run_dir('C08_design'), workers=4)
  tlc.require_clean(r, 'DiagCache')
  if r.violated:
    raise tlc.MachineryError('DiagCache (current code variant) violates %s' % r.violated)
  res.add_tlc(r, 'DiagCache.fixed')
  r0 = tlc.run_tlc('DiagCache', CFG % ('{}', 100000, 'VIEW View'), tlc.run_dir('C08_asis'), workers=1)
  if not r0.violated:
    raise tlc.MachineryError('the pre-repair variant of DiagCache no longer yields the stale-verdict counterexample')
  res.extra['as_is_variant_counterexample'] = {'violated': r0.violated, 'length': len(r0.error_trace)}
  # 2. behaviours
  lib = make_library(res.seed % 1000, diag_cls, par)
  lib_high = make_library(res.seed % 1000, diag_cls, par, level=5.0e6)
  depth = 5 if thorough else 4
  r = tlc.run_tlc('DiagCache', CFG % ('{"D1"}', depth, 'INVARIANT Emit'), tlc.run_dir('C08_emit'), workers=1,
                  timeout=3000)
  tlc.require_clean(r, 'DiagCache(emit)')
  res.add_tlc(r, 'DiagCache.enumerate')
  behaviours = r.json_lines()
  nsim, simdepth = (4000, 16) if thorough else (500, 13)
  rs = tlc.run_tlc('DiagCache', CFG % ('{"D1"}', simdepth, 'INVARIANT Emit'), tlc.run_dir('C08_sim'), workers=1,
                   simulate='num=%d' % nsim, depth=simdepth + 1, seed=res.seed % 100000, timeout=3000)
  tlc.require_clean(rs, 'DiagCache(simulate)')
  res.add_tlc(rs, 'DiagCache.simulate')
  sim = rs.json_lines()
  rng = random.Random(res.seed)
  cap = 40000 if thorough else 3000
  if len(sim) > cap:
    sim = rng.sample(sim, cap)
  seen = set()
  acts = {}
  stale_opportunities = 0
  todo = []
  for hist in behaviours + sim:
    key = tuple((e['a'], e['arg']) for e in hist)
    if key in seen:
      continue
    seen.add(key)
    todo.append(hist)
  results = par_mod.pmap(lambda ih: replay_behaviour(diag_cls, par, lib_high if ih[0] % 3 == 2 else lib, ih[1],
                                                     'buffer' if ih[0] % 4 == 1 else 'fresh'),
                         list(enumerate(todo)))
  res.extra['behaviours_delivered_through_one_reused_buffer'] = len([1 for i in range(len(todo)) if i % 4 == 1])
  res.extra['behaviours_on_high_level_series'] = len([1 for i in range(len(todo)) if i % 3 == 2])
  for hist, bad in zip(todo, results):
    res.case_seen(tuple((e['a'], e['arg']) for e in hist))
    res.traces += 1
    for e in hist[1:]:
      k = e['a'] + ('' if e['a'] != 'read' else ':' + e['arg'].strip('"'))
      acts[k] = acts.get(k, 0) + 1
    # a behaviour that reads, changes a series, then reads again is where staleness could show
    names = [e['a'] for e in hist]
    if any(names[i] == 'read' and any(n != 'read' for n in names[i + 1:]) for i in range(len(names))):
      stale_opportunities += 1
    if bad and len(res.violations) <= 25:
      res.violate(bad[0], {'history': [(e['a'], e['arg'].strip('"')) for e in hist[:bad[2] + 1]], 'lib_seed': res.seed % 1000,
                           'level': 5.0e6 if todo.index(hist) % 3 == 2 else 0.0,
                           'delivery': 'buffer' if todo.index(hist) % 4 == 1 else 'fresh'}, bad[1])
    if res.traces % 2500 == 3:
      res.sample([(e['a'], e['arg'].strip('"'), (e['y'], e['x'])) for e in hist])
  res.coverage_actions.update({'replayed.' + k: [v, v] for k, v in acts.items()})
  missing = [q for q in QUANTITIES if ('read:' + q) not in acts] + [a for a in ('setx', 'sety') if a not in acts]
  if missing or stale_opportunities == 0:
    raise tlc.MachineryError('vacuous: actions never exercised %r, stale opportunities %d' % (missing, stale_opportunities))
  res.extra['behaviours_with_read_then_change'] = stale_opportunities
  res.exhaustive = False
  res.rule = ('all behaviours of DiagCache.tla of length %d (2 treatment versions, 3 control versions + none, 9 readable '
              'quantities) and TLC-simulated behaviours of length %d, each replayed into one real object with all public '
              'quantities observed after every step; distinct = distinct action sequences; non-trivial = all (those '
              'with a read followed by a series change are counted separately)') % (depth, simdepth)
  res.assumptions += ['series library: 40-point series, every quantity differs between any two versions, both verdicts '
                      'occur under each treatment series', 'values compared exactly (same arithmetic on the same data)']


def replay(res, blob):
  from matched_markets.methodology import tbrmmdiagnostics, tbrmmdesignparameters
  par = tbrmmdesignparameters.TBRMMDesignParameters(n_test=7, iroas=1.0)
  c = blob['case']
  lib = make_library(c['lib_seed'], tbrmmdiagnostics.TBRMMDiagnostics, par, level=c.get('level', 0.0))
  hist = [{'a': a, 'arg': arg, 'y': 0, 'x': 0} for a, arg in c['history']]
  # served versions are recomputed as "current" (the as-fixed spec always serves the current version or None)
  yv, xv = int(hist[0]['arg']), 0
  for e in hist[1:]:
    if e['a'] == 'setx':
      xv = int(e['arg'])
    elif e['a'] == 'sety':
      yv, xv = int(e['arg']), 0
    else:
      e['y'], e['x'] = (yv, xv) if xv else (-1, -1)
  res.case_seen('replay')
  res.traces += 1
  bad = replay_behaviour(tbrmmdiagnostics.TBRMMDiagnostics, par, lib, hist, c.get('delivery', 'fresh'))
  if bad:
    res.violate(bad[0], c, bad[1])
