"""C09 - see DESIGN.md section 4. Decided by MMTrace.tla on traces recorded by the shared search driver (harness/mm.py)
plus the design-level models (harness/mmdesign.py)."""
from harness import mm
from harness import mmdesign

OWNER = 'C09'


def run(res):
  mmdesign.run_design_level(res, OWNER)
  insts, verdicts, stats = mm.run_search_clauses(res, OWNER)
  mm.vacuity_guard(res, OWNER, stats)
  # panels of 7-14 geos (greedy only): the clauses about returned designs, judged by MMTraceLite.tla
  mm.run_large_greedy(res, OWNER)
  mm.describe(res, OWNER)


def replay(res, blob):
  mm.replay_case(res, blob)
