"""C05 - required impact is calibrated to the post-analysis test at the stated power.

spec/ImpactModel.tla (EXTENDS TBRModel): over every small-integer pre-period pair of series (n in 3..5) and every
enumerated test period TLC checks in exact rational arithmetic that ONE operator PostScaleSq is (a) the posterior
variance tbr.TBR / tbrfit assign to the cumulative effect of the last test day (TBRModel's var_T, Kerman 2017 eq. 5)
when fed the displacement of the control mean read off the data, and (b) with the displacement of the planning
F-quantile, the square of what _impact_estimate * sigma computes divided by (q_s + q_p)^2 - with PLANTED rational
quantiles phi, q_s, q_p; plus sigma^2 = RSS / (n - 2), linear scaling in the response unit, level-shift invariance
and strict decrease in r^2 at fixed S_yy.

Replay: the quantiles are planted through scipy's cdf (flevel = F.cdf(phi; 1, n-1), sig_level = t.cdf(q_s; n-2),
power_level = t.cdf(q_p; n-2)); required_impact^2 is compared with TLC's rational; then the test period the
property describes is built (control mean displaced by sqrt(dv S_xx), treatment = counterfactual + RI / n_test per
day) and tbr.TBR(use_cooldown=False) and tbrfit must report estimate = RI, scale^2 = PostScaleSq and a one-sided
lower bound at sig_level of q_p * scale.  The laws are replayed on the emitted cases and, with the closed form
evaluated exactly (fractions) and scipy's own quantiles, on random float series over the whole parameter domain.

Reuses c06.py (module loader, frame conversion, process pool).
"""
import hashlib
import math
import random
import time

from harness import tlc
from harness.checks import c06 as base

Fraction = base.Fraction

# shape code: 1000 maxv + 100 n_pre + 10 n_test + n_cool (see TBRModel.tla); n_cool = 0 throughout
TIERS = {
    'quick': dict(shapes=[2310, 1420, 1320, 1510], sample_mod=24, nrandom=400, max_records=6000),
    'thorough': dict(shapes=[3310, 2320, 2410, 1520, 1530], sample_mod=96, nrandom=6000, max_records=30000),
}
PHIS = [5, 8, 10]
QHALVES = [1, 2, 3]
DESIGN_INVARIANTS = ['TypeOK', 'MTypeOK', 'FitIsOLS', 'ImplRefinesClosedForm', 'Finished', 'DesignAgrees',
                     'PostScaleIsPosterior', 'SigmaIsResidual', 'ImpactRefinesContract', 'CalibratedToPosterior',
                     'LinearScaling', 'ShiftInvariance', 'ImpactIsMultipleOfSigma', 'CorrelationOrder']
ACTIONS = ['Term', 'Sigma', 'Impact']

CFG = """SPECIFICATION MSpec
CONSTANTS Shapes = {%s}
 SampleMod = %d
 SampleRes = %d
 NMMod = %d
 EmitOnly = %s
 Phis = {%s}
 QHalves = {%s}
 UnitScales = {2, 4}
 Shifts = {1, 3}
%s
"""


def frac(p):
  return Fraction(p[0], p[1])


def run_model(res):
  tier = TIERS[res.tier]
  shapes = ', '.join(str(s) for s in tier['shapes'])
  phis, qh = ', '.join(map(str, PHIS)), ', '.join(map(str, QHALVES))
  sres = res.seed % 1000003
  smod = tier['sample_mod']
  cfg_a = CFG % (shapes, smod, sres, smod, 'FALSE', phis, qh, '\n'.join('INVARIANT ' + i for i in DESIGN_INVARIANTS))
  ra = tlc.run_tlc('ImpactModel', cfg_a, tlc.run_dir('C05_design'), workers=16, timeout=3000)
  tlc.require_clean(ra, 'ImpactModel (design level)')
  res.add_tlc(ra, 'ImpactModel.design')
  if ra.violated:
    raise tlc.MachineryError('design-level spec ImpactModel violates %s (spec bug, not a code verdict)\n%s' % (
        ra.violated, '\n'.join(ra.error_trace[-2:])[:3000]))
  cfg_b = CFG % (shapes, smod, sres, smod, 'TRUE', phis, qh,
                 '\n'.join('INVARIANT ' + i for i in DESIGN_INVARIANTS + ['MEmit']) + '\nPROPERTY MTerminates')
  rb = tlc.run_tlc('ImpactModel', cfg_b, tlc.run_dir('C05_emit'), workers=1, timeout=3000, coverage=True)
  tlc.require_clean(rb, 'ImpactModel (emitting run)')
  res.add_tlc(rb, 'ImpactModel.emit')
  if rb.violated:
    raise tlc.MachineryError('emitting run of ImpactModel violates %s (spec bug)' % rb.violated)
  recs = rb.json_lines()
  for a in ACTIONS:
    if rb.coverage.get(a, (0, 0))[1] <= 0:
      raise tlc.MachineryError('vacuous model run: action %s of ImpactModel was never taken (%r)' % (a, rb.coverage))
  want = rb.init_states * len(PHIS) * len(QHALVES) ** 2
  if not recs or len(recs) != want:
    raise tlc.MachineryError('expected %d emitted records (27 planted triples per sampled case), got %d' % (
        want, len(recs)))
  recs.sort(key=lambda r: (r['shape'], r['x'], r['y'], r['phi'], r['qs'], r['qp']))
  for r in recs:
    cross_check(r)
  info = {'universe_cases': ra.init_states, 'emitted_records': len(recs),
          'shapes': {str(s): base.shape_text(s) for s in tier['shapes']}}
  return recs, info


def cross_check(r):
  """Consistency of an emitted record, recomputed with fractions (a failure is a spec / tooling bug)."""
  n, nt = r['npre'], r['ntest']
  sig2 = Fraction(r['D'], (n - 2) * n * r['K'])
  dv = Fraction(r['phi'] * (n + 1), n * nt * (n - 1))
  post = sig2 * nt * nt * (Fraction(1, nt) + Fraction(1, n) + dv)
  ri2 = (frac(r['qs']) + frac(r['qp'])) ** 2 * post
  if not (frac(r['sig2']) == sig2 and frac(r['dv']) == dv and frac(r['postsq']) == post and frac(r['risq']) == ri2 and
          frac(r['rsq']) == Fraction(r['P'] ** 2, r['K'] * r['Ky']) and r['ncool'] == 0):
    raise tlc.MachineryError('emitted record disagrees with its own closed form: %r' % (r,))


def public(r):
  return {k: r[k] for k in ('shape', 'npre', 'ntest', 'ncool', 'x', 'y', 'lab', 'df', 'K', 'P', 'A', 'nk', 'D', 'Ky',
                            'phi', 'qs', 'qp', 'sig2', 'rsq', 'dv', 'postsq', 'termsq', 'risq')}


# ------------------------------------------------------------------------------------------------ real code
def plant(st, n, phi, qs, qp):
  """Design-parameter levels whose scipy quantiles are the planted rationals; None when outside the domain."""
  flevel = float(st.f.cdf(phi, 1, n - 1))
  sig = float(st.t.cdf(qs, n - 2))
  pw = float(st.t.cdf(qp, n - 2))
  if not (0.9 <= flevel < 1.0 and 0.0 < sig < 1.0 and 0.0 < pw < 1.0):
    return None
  # the trusted base: ppf(cdf(q)) = q
  back = (float(st.f.ppf(flevel, 1, n - 1)), float(st.t.ppf(sig, n - 2)), float(st.t.ppf(pw, n - 2)))
  for got, want in zip(back, (phi, qs, qp)):
    if abs(got - want) > 1e-10 * max(1.0, abs(want)):
      raise tlc.MachineryError('trusted base broken: scipy ppf(cdf(%r)) = %r (n = %d)' % (want, got, n))
  return flevel, sig, pw


def diagnostics(mods, y, x, nt, levels):
  flevel, sig, pw = levels
  par = mods['par'].TBRMMDesignParameters(n_test=nt, iroas=1.0, flevel=flevel, sig_level=sig, power_level=pw)
  yy = [float(v) for v in y]
  if int(abs(sum(yy)) * 1000) % 2 == 0:
    # "for any pretest series": half of the objects held another pair of series before (and were asked for the impact)
    diag = mods['diag'].TBRMMDiagnostics([3.0 * v + (j % 4) ** 2 for j, v in enumerate(yy)], par)
    diag.x = [float(v) * 0.5 + (j % 3) for j, v in enumerate(x)]
    try:
      diag.required_impact   # pylint: disable=pointless-statement
      diag.estimate_required_impact(0.9)
    except Exception:  # pylint: disable=broad-except
      pass
    diag.y = yy
  elif int(abs(sum(yy)) * 1000) % 4 == 1:
    # the pre-screening flow: an object without a control series is asked for the estimate, gets another treatment
    # series, and is asked again BEFORE a control series is attached (the estimate depends on y and corr only)
    diag = mods['diag'].TBRMMDiagnostics([3.0 * v + (j % 4) ** 2 for j, v in enumerate(yy)], par)
    try:
      diag.estimate_required_impact(0.9)
    except Exception:  # pylint: disable=broad-except
      pass
    diag.y = yy
    try:
      diag.verif_prescreen = float(diag.estimate_required_impact(0.75))
    except Exception as e:  # pylint: disable=broad-except
      diag.verif_prescreen = '%s: %s' % (type(e).__name__, e)
  else:
    diag = mods['diag'].TBRMMDiagnostics(yy, par)
  diag.x = [float(v) for v in x]
  return diag



def rclose(got, want, rel, unit=0.0):
  return abs(got - want) <= rel * max(abs(want), abs(unit))


def planted_test_frame(mods, x, y, xt, yt_day, nt, kind, rng):
  """The experiment the property describes: the pre-period series, then nt test days with control xt, treatment yt."""
  rows = []
  n = len(x)
  for i in range(n + nt):
    cv, tv = (x[i], y[i]) if i < n else (xt, yt_day)
    period = base.PRE if i < n else base.TEST
    if kind == 'one_geo':
      parts = [(base.CONTROL, 11, cv), (base.TREATMENT, 21, tv)]
    else:   # two geos per group, float parts
      u, w = rng.uniform(-1.0, 2.0), rng.uniform(-1.0, 2.0)
      parts = [(base.CONTROL, 11, u), (base.CONTROL, 12, cv - u), (base.TREATMENT, 21, w), (base.TREATMENT, 22, tv - w)]
    for grp, geo, v in parts:
      rows.append({'date': i, 'geo': geo, 'group': grp, 'period': period, 'response': float(v)})
  if kind != 'one_geo':
    rng.shuffle(rows)
  return base.to_frame(mods['pd'], rows, False)


def check_calibration(mods, x, y, nt, levels, quant, want, kind, sign, rng):
  """required_impact, then the planted test through tbr.TBR and tbrfit.

  quant = (q_s, q_p) floats; want = dict ri2, post2, dv (floats), a, b (OLS line), xbar, sxx.
  Returns (list of (clause, detail), ri)."""
  out = []
  st = mods['st']
  qs, qp = quant
  try:
    diag = diagnostics(mods, y, x, nt, levels)
    ri = float(diag.required_impact)
    corr = float(diag.corr)
    again = float(diag.estimate_required_impact(corr))
    mirrored = float(diag.estimate_required_impact(-corr))
  except Exception as e:  # pylint: disable=broad-except
    return [('RequiredImpactIsTotal', '%s: %s' % (type(e).__name__, e))], None
  if not rclose(ri * ri, want['ri2'], 1e-8) or (ri * (qs + qp) < 0 and abs(qs + qp) > 1e-9):
    out.append(('RequiredImpactIsCalibrated', 'required_impact=%.15g (square %.15g), demanded sign(q_s+q_p=%.6g) and '
                '(q_s+q_p)^2 PostScaleSq=%.15g' % (ri, ri * ri, qs + qp, want['ri2'])))
    return out, ri
  pre = getattr(diag, 'verif_prescreen', None)
  if pre is not None:
    try:
      now = float(diag.estimate_required_impact(0.75))
    except Exception as e:  # pylint: disable=broad-except
      now = '%s: %s' % (type(e).__name__, e)
    if (pre != now) if (isinstance(pre, str) or isinstance(now, str)) else not rclose(pre, now, 1e-12):
      out.append(('EstimateAtOwnCorrelation', 'estimate_required_impact(0.75) before the control series was attached = %r, '
                  'after = %r (same treatment series)' % (pre, now)))
  if not (rclose(again, ri, 1e-12) and rclose(mirrored, ri, 1e-12)):
    out.append(('EstimateAtOwnCorrelation', 'required_impact=%.15g, estimate_required_impact(corr)=%.15g, '
                '(-corr)=%.15g' % (ri, again, mirrored)))
  if 'corr' in want:
    try:
      est = float(diag.estimate_required_impact(want['corr']))
      if not rclose(est * est, want['ri2'], 1e-8):
        out.append(('EstimateFromCorrelation', 'estimate_required_impact(%.15g)^2=%.15g demanded %.15g' % (
            want['corr'], est * est, want['ri2'])))
    except Exception as e:  # pylint: disable=broad-except
      out.append(('RequiredImpactIsTotal', '%s: %s' % (type(e).__name__, e)))
  # the experiment of the property
  scale = math.sqrt(want['post2'])
  ri_exp = math.sqrt(want['ri2']) * (1.0 if qs + qp >= 0 else -1.0)
  dx = sign * math.sqrt(want['dv'] * want['sxx'])
  xt = want['xbar'] + dx
  yt_day = want['a'] + want['b'] * xt + ri_exp / nt
  try:
    df = planted_test_frame(mods, x, y, xt, yt_day, nt, kind, rng)
    m = mods['tbr'].TBR(use_cooldown=False)
    m.fit(df, 'response')
    if nt % 2 == 0:
      try:   # the returned effect series is the caller's: overwritten in place before the report is asked for
        eff = m.causal_effect((m.periods.test,))
        eff.iloc[:] = 0.0
      except Exception:  # pylint: disable=broad-except
        pass
    row = m.summary(level=levels[1], tails=1, report='last').iloc[-1]
    est, lower, sc = float(row['estimate']), float(row['lower']), float(row['scale'])
  except Exception as e:  # pylint: disable=broad-except
    out.append(('PostAnalysisIsTotal', '%s: %s' % (type(e).__name__, e)))
    return out, ri
  tag = ' (control mean displaced by %+.6g, %s)' % (dx, kind)
  if not rclose(est, ri_exp, 1e-7, scale):
    out.append(('PostAnalysisEstimatesTheLift', 'TBR estimate=%.12g, planted total lift RI=%.12g' % (est, ri_exp) + tag))
  elif not rclose(sc * sc, want['post2'], 1e-7):
    out.append(('PosteriorScaleIsPostScale', 'TBR scale^2=%.12g demanded PostScaleSq=%.12g' % (sc * sc, want['post2']) + tag))
  elif not rclose(est - lower, qs * scale, 1e-6, scale):
    out.append(('LowerIsSigLevelQuantile', 'estimate-lower=%.12g demanded q_s*scale=%.12g' % (est - lower, qs * scale) + tag))
  elif not rclose(lower, qp * scale, 1e-6, scale):
    out.append(('LowerBoundIsPowerQuantileTimesScale', 'lower=%.12g demanded q_p*scale=%.12g' % (lower, qp * scale) + tag))
  # the design-side posterior of the same experiment; on half of the objects every test has been read before, as on
  # the diagnostics object of a design returned by a search
  try:
    if int(abs(ri) * 1000) % 2 == 0:
      _ = (diag.aatest, diag.bbtest, diag.dwtest, diag.tests_ok)
    f = diag.tbrfit(float(xt), float(yt_day))
    if not rclose(float(f.estimate), ri_exp, 1e-7, scale):
      out.append(('DesignFitEstimatesTheLift', 'tbrfit estimate=%.12g, planted RI=%.12g' % (f.estimate, ri_exp) + tag))
    elif not rclose(float(f.scale) ** 2, want['post2'], 1e-7):
      out.append(('DesignFitScaleIsPostScale', 'tbrfit scale^2=%.12g demanded %.12g' % (f.scale ** 2, want['post2']) + tag))
    elif not rclose(float(f.cihw), qs * scale, 1e-7, scale):
      out.append(('DesignFitHalfWidth', 'tbrfit cihw=%.12g demanded q_s*scale=%.12g' % (f.cihw, qs * scale) + tag))
    elif not rclose(float(f.sigma) ** 2, want['sig2'], 1e-8):
      out.append(('DesignFitSigma', 'tbrfit sigma^2=%.12g demanded RSS/(n-2)=%.12g' % (f.sigma ** 2, want['sig2'])))
  except Exception as e:  # pylint: disable=broad-except
    out.append(('DesignFitIsTotal', '%s: %s' % (type(e).__name__, e)))
  return out, ri


def check_laws(mods, x, y, nt, levels, ri, shifts):
  """y -> c y multiplies RI by c exactly (c a power of two); the control unit and level shifts do not matter."""
  out = []
  try:
    for c in (4.0, 0.5):
      got = float(diagnostics(mods, [c * v for v in y], x, nt, levels).required_impact)
      if not rclose(got, c * ri, 1e-12):
        out.append(('LinearInResponseUnit', 'y x %g: required_impact=%.15g demanded %.15g' % (c, got, c * ri)))
        break
    got = float(diagnostics(mods, y, [2.0 * v for v in x], nt, levels).required_impact)
    if not rclose(got, ri, 1e-12):
      out.append(('ControlUnitIrrelevant', 'x x 2: required_impact=%.15g demanded %.15g' % (got, ri)))
    d, e = shifts
    got = float(diagnostics(mods, [v + d for v in y], [v + e for v in x], nt, levels).required_impact)
    if not rclose(got, ri, 1e-9):
      out.append(('IgnoresLevelShifts', 'y + %g, x + %g: required_impact=%.15g demanded %.15g' % (d, e, got, ri)))
    # a level that dwarfs the spread (about a million standard deviations): rounding grows with the level, so the
    # tolerance is 1e-6 here; a spread computed from raw moments loses all its digits at this level
    big = 1.0e6 * max(abs(d), abs(e), 1e-300) / 20.0
    got = float(diagnostics(mods, [v + big for v in y], [v - big for v in x], nt, levels).required_impact)
    if not rclose(got, ri, 1e-6):
      out.append(('IgnoresLevelShifts', 'y + %g, x - %g: required_impact=%.15g demanded %.15g' % (big, big, got, ri)))
  except Exception as e:  # pylint: disable=broad-except
    out.append(('RequiredImpactIsTotal', '%s: %s' % (type(e).__name__, e)))
  return out


def want_of_record(r):
  n = r['npre']
  x = r['x'][:n]
  sign = 1.0 if r['P'] >= 0 else -1.0
  return {'ri2': float(frac(r['risq'])), 'post2': float(frac(r['postsq'])), 'dv': float(frac(r['dv'])),
          'sig2': float(frac(r['sig2'])), 'a': float(Fraction(r['A'], r['nk'])), 'b': float(Fraction(r['P'], r['K'])),
          'xbar': float(Fraction(sum(x), n)), 'sxx': float(Fraction(r['K'], n)),
          'corr': sign * math.sqrt(frac(r['rsq']))}


def record_rng(seed, r, salt):
  h = hashlib.sha256(('%d|%r|%r|%r|%s' % (seed, r.get('shape'), r['x'], r['y'], salt)).encode()).hexdigest()
  return random.Random(int(h[:16], 16))


def run_record(mods, r, seed, kind, sign):
  """One emitted (case, planted triple).  Returns (violations, ri, dropped)."""
  n, nt = r['npre'], r['ntest']
  qs, qp = float(frac(r['qs'])), float(frac(r['qp']))
  levels = plant(mods['st'], n, float(r['phi']), qs, qp)
  if levels is None:
    return [], None, True
  x, y = [float(v) for v in r['x'][:n]], [float(v) for v in r['y'][:n]]
  rng = record_rng(seed, r, kind)
  bad, ri = check_calibration(mods, x, y, nt, levels, (qs, qp), want_of_record(r), kind, sign, rng)
  if ri is not None and not bad:
    bad += check_laws(mods, x, y, nt, levels, ri, (3.0, 1.0))
  return bad, ri, False


def work(job):
  idx, r, seed = job
  mods = base.load_mods()
  kind = 'one_geo' if idx % 2 == 0 else 'two_geos_shuffled'
  sign = 1.0 if (idx // 2) % 2 == 0 else -1.0
  bad, ri, dropped = run_record(mods, r, seed, kind, sign)
  return {'idx': idx, 'ri': ri, 'dropped': dropped, 'kind': kind, 'sign': sign,
          'viol': [(clause, {'part': 'record', 'case': public(r), 'seed': seed, 'kind': kind, 'sign': sign}, detail)
                   for clause, detail in bad]}


# ------------------------------------------------------------------------------------------------ random float series
def random_case(seed, i):
  """A float pre-period pair and a parameter point of the documented domain (deterministic in seed, i)."""
  rng = random.Random(seed * 1000003 + i)
  n = rng.choice([3, 4, 5, 6, 8, 12, 20, 35, 60, 91, 130, 200, 364])
  nt = rng.choice([1, 2, 3, 7, 14, 28])
  unit = 10.0 ** rng.randint(-2, 4)
  rho = rng.uniform(-0.95, 0.98)
  lvl = rng.uniform(-3.0, 3.0)
  z = [rng.gauss(0.0, 1.0) for _ in range(n)]
  e = [rng.gauss(0.0, 1.0) for _ in range(n)]
  x = [unit * (lvl + u) for u in z]
  y = [unit * (2.0 * lvl + 0.7 * (rho * u + math.sqrt(1.0 - rho * rho) * v)) for u, v in zip(z, e)]
  levels = (rng.choice([0.9, 0.95, 0.99, rng.uniform(0.9, 0.999)]), rng.choice([0.9, 0.8, rng.uniform(0.55, 0.99)]),
            rng.choice([0.8, 0.5, rng.uniform(0.5, 0.97)]))
  if i % 3 == 2:
    # the whole documented domain (0, 1): quantiles of either sign
    levels = (levels[0], rng.uniform(0.03, 0.99), rng.uniform(0.03, 0.97))
  return {'i': i, 'n': n, 'ntest': nt, 'x': x, 'y': y, 'levels': list(levels)}


def exact_stats(x, y):
  """Closed form of the specification evaluated exactly on the floats (fractions)."""
  n = len(x)
  fx, fy = [Fraction(v) for v in x], [Fraction(v) for v in y]
  s, sy = sum(fx), sum(fy)
  k = n * sum(v * v for v in fx) - s * s
  ky = n * sum(v * v for v in fy) - sy * sy
  p = n * sum(u * v for u, v in zip(fx, fy)) - s * sy
  d = ky * k - p * p
  return {'K': k, 'Ky': ky, 'P': p, 'D': d, 'S': s, 'Sy': sy}


def work_random(job):
  i, seed = job
  mods = base.load_mods()
  st = mods['st']
  rc = random_case(seed, i)
  return {'i': i, 'viol': [(clause, {'part': 'random', 'i': i, 'seed': seed, 'n': rc['n'], 'ntest': rc['ntest'],
                                     'levels': rc['levels']}, detail)
                           for clause, detail in run_random(mods, st, rc, seed)],
          'n': rc['n'], 'ntest': rc['ntest']}


def run_random(mods, st, rc, seed):
  n, nt, x, y = rc['n'], rc['ntest'], rc['x'], rc['y']
  levels = tuple(rc['levels'])
  es = exact_stats(x, y)
  if es['K'] <= 0 or es['D'] <= 0:
    return []
  phi = float(st.f.ppf(levels[0], 1, n - 1))
  qs, qp = float(st.t.ppf(levels[1], n - 2)), float(st.t.ppf(levels[2], n - 2))
  sig2 = es['D'] / ((n - 2) * n * es['K'])
  dv = phi * (n + 1) / (n * nt * (n - 1.0))
  post2 = float(sig2) * nt * nt * (1.0 / nt + 1.0 / n + dv)
  want = {'ri2': (qs + qp) ** 2 * post2, 'post2': post2, 'dv': dv, 'sig2': float(sig2),
          'a': float((es['Sy'] * es['K'] - es['P'] * es['S']) / (n * es['K'])), 'b': float(es['P'] / es['K']),
          'xbar': float(es['S'] / n), 'sxx': float(es['K'] / n)}
  rng = random.Random(seed * 7919 + rc['i'])
  kind = 'one_geo' if rc['i'] % 2 == 0 else 'two_geos_shuffled'
  bad, ri = check_calibration(mods, x, y, nt, levels, (qs, qp), want, kind, 1.0 if rc['i'] % 4 < 2 else -1.0, rng)
  if ri is None or bad:
    return bad
  if qs + qp <= 1e-6:
    # sig_level / power_level below one half can make the multiplier (q_s + q_p) non-positive: the calibration
    # identity above still holds (and is checked, sign included), but "decreases as |correlation| grows" is a
    # statement about a positive required impact and is not judged here
    return bad
  sd = math.sqrt(float(es['Ky'] / n / n))
  bad += check_laws(mods, x, y, nt, levels, ri, (rng.uniform(-20, 20) * sd, rng.uniform(-20, 20) * sd))
  # strictly decreasing in |correlation|, symmetric in its sign
  try:
    diag = diagnostics(mods, y, x, nt, levels)
    grid = [0.0, 0.1, 0.3, 0.5, 0.7, 0.9, 0.99, 0.999]
    vals = [float(diag.estimate_required_impact(r)) for r in grid]
    neg = [float(diag.estimate_required_impact(-r)) for r in grid]
    for j in range(len(grid)):
      if not rclose(neg[j], vals[j], 1e-12):
        bad.append(('DependsOnAbsoluteCorrelation', 'corr=%g: %.15g, corr=-%g: %.15g' % (grid[j], vals[j], grid[j], neg[j])))
        break
      if j and not vals[j] < vals[j - 1]:
        bad.append(('DecreasingInCorrelation', 'estimate_required_impact(%g)=%.15g is not below (%g)=%.15g' % (
            grid[j], vals[j], grid[j - 1], vals[j - 1])))
        break
    # a second control series with a different correlation: the order of RI is the reverse order of |corr|
    x2 = [u + rng.gauss(0.0, 1.0) * math.sqrt(float(es['K'])) / n for u in x]
    e2 = exact_stats(x2, y)
    if e2['K'] > 0 and e2['D'] > 0:
      r1, r2 = es['P'] ** 2 / (es['K'] * es['Ky']), e2['P'] ** 2 / (e2['K'] * e2['Ky'])
      ri2 = float(diagnostics(mods, y, x2, nt, levels).required_impact)
      if abs(float(r1 - r2)) > 1e-7 and (r1 < r2) != (ri2 < ri):
        bad.append(('DecreasingInCorrelation', 'r^2=%.12g gives RI=%.12g, r^2=%.12g gives RI=%.12g (same y)' % (
            float(r1), ri, float(r2), ri2)))
  except Exception as e:  # pylint: disable=broad-except
    bad.append(('RequiredImpactIsTotal', '%s: %s' % (type(e).__name__, e)))
  return bad


# ------------------------------------------------------------------------------------------------ pairs of emitted cases
def correlation_pairs(recs, ris):
  """Emitted records with equal (shape, planted triple, S_yy): strictly more r^2 <=> strictly less required impact."""
  groups = {}
  for i, r in enumerate(recs):
    if ris[i] is not None:
      groups.setdefault((r['shape'], r['phi'], tuple(r['qs']), tuple(r['qp']), r['Ky']), []).append(i)
  pairs = []
  for idxs in groups.values():
    idxs.sort(key=lambda i: (frac(recs[i]['rsq']), i))
    for a, b in zip(idxs, idxs[1:]):
      pairs.append((a, b))
  return pairs


def judge_pair(ra, rb, ria, rib):
  qa, qb = frac(ra['rsq']), frac(rb['rsq'])
  if qa == qb:
    if not rclose(ria, rib, 1e-9):
      return 'EqualCorrelationEqualImpact', 'r^2 = %s for both, required impact %.15g vs %.15g' % (qa, ria, rib)
  elif (qa < qb) != (rib < ria):
    return 'DecreasingInCorrelation', 'r^2=%s gives RI=%.15g, r^2=%s gives RI=%.15g at equal n, S_yy' % (qa, ria, qb, rib)
  return None


def run(res):
  base.load_mods()
  tier = TIERS[res.tier]
  recs, info = run_model(res)
  if len(recs) > tier['max_records']:
    step = len(recs) / float(tier['max_records'])
    recs = [recs[int(i * step)] for i in range(tier['max_records'])]
  res.extra.update(info)
  res.exhaustive = False
  res.rule = ('TLC model-checks every case of the universe (all integer series within the listed shapes with K > 0 and '
              'RSS > 0, every enumerated test period, all 27 planted quantile triples) and emits those with Hash %% %d = '
              'seed-derived residue; distinct = distinct (case, planted triple inside the parameter domain) replayed '
              'into TBRMMDiagnostics and tbr.TBR, pairs of them at equal S_yy, and seeded random float cases; '
              'non-trivial = every one (each computes required impact and fits the planted experiment)' %
              tier['sample_mod'])
  t0 = time.time()
  results = base.pool_map(work, [(i, r, res.seed) for i, r in enumerate(recs)])
  ris = [None] * len(recs)
  stats = {'dropped_out_of_domain': 0}
  nviol = 0
  for out in results:
    if out['dropped']:
      stats['dropped_out_of_domain'] += 1
      continue
    r = recs[out['idx']]
    ris[out['idx']] = out['ri']
    res.traces += 1
    res.case_seen(('record', out['idx']))
    for k in ('kind:' + out['kind'], 'displacement:%+d' % out['sign'], 'npre:%d' % r['npre'], 'ntest:%d' % r['ntest'],
              'phi:%d' % r['phi'], 'qs:%d/%d' % tuple(r['qs']), 'qp:%d/%d' % tuple(r['qp']),
              'corr_sign:%d' % ((r['P'] > 0) - (r['P'] < 0))):
      stats[k] = stats.get(k, 0) + 1
    for clause, case, detail in out['viol']:
      nviol += 1
      if nviol <= 300:
        res.violate(clause, case, detail)
  # pairs at equal S_yy
  pairs = correlation_pairs(recs, ris)
  strict = 0
  for a, b in pairs:
    res.traces += 1
    res.case_seen(('pair', a, b))
    strict += frac(recs[a]['rsq']) != frac(recs[b]['rsq'])
    bad = judge_pair(recs[a], recs[b], ris[a], ris[b])
    if bad:
      nviol += 1
      if nviol <= 300:
        res.violate(bad[0], {'part': 'pair', 'a': public(recs[a]), 'b': public(recs[b]), 'seed': res.seed}, bad[1])
  # random float series over the parameter domain
  rnd = base.pool_map(work_random, [(i, res.seed) for i in range(tier['nrandom'])])
  for out in rnd:
    res.traces += 1
    res.case_seen(('random', out['i']))
    stats['random_n:%d' % out['n']] = stats.get('random_n:%d' % out['n'], 0) + 1
    for clause, case, detail in out['viol']:
      nviol += 1
      if nviol <= 300:
        res.violate(clause, case, detail)
  res.extra['replay_wall_s'] = round(time.time() - t0, 1)
  res.extra['replayed_records'] = sum(1 for v in ris if v is not None)
  res.extra['dropped_nongeneric'] = 0
  res.extra['dropped_out_of_domain'] = stats['dropped_out_of_domain']
  res.extra['pairs_at_equal_syy'] = len(pairs)
  res.extra['pairs_with_distinct_correlation'] = int(strict)
  res.extra['random_float_cases'] = tier['nrandom']
  res.extra['replays'] = dict(sorted(stats.items()))
  kept = [i for i, v in enumerate(ris) if v is not None]
  for i in kept[::max(1, len(kept) // 5)]:
    r = recs[i]
    n = r['npre']
    lv = plant(base.load_mods()['st'], n, float(r['phi']), float(frac(r['qs'])), float(frac(r['qp'])))
    res.sample({'x_pre': r['x'][:n], 'y_pre': r['y'][:n], 'n_test': r['ntest'], 'phi': r['phi'], 'q_s': r['qs'],
                'q_p': r['qp'], 'planted_levels (flevel, sig_level, power_level)': lv, 'sigma^2': r['sig2'],
                'r^2': r['rsq'], 'PostScaleSq': r['postsq'], 'required_impact^2': r['risq'],
                'required_impact (real code)': ris[i]})
  # vacuity guards
  need = ['kind:one_geo', 'kind:two_geos_shuffled', 'displacement:+1', 'displacement:-1', 'corr_sign:1', 'corr_sign:-1',
          'phi:10', 'phi:8'] + ['qs:%d/%d' % q for q in ((1, 2), (1, 1), (3, 2))] + \
      ['qp:%d/%d' % q for q in ((1, 2), (1, 1), (3, 2))] + ['npre:3', 'npre:4', 'npre:5', 'ntest:1', 'ntest:2', 'phi:5']
  missing = [k for k in need if stats.get(k, 0) == 0]
  if missing:
    raise tlc.MachineryError('vacuous run: never exercised %r (%r)' % (missing, stats))
  if stats['dropped_out_of_domain'] == 0 or len(kept) < 50:
    raise tlc.MachineryError('vacuous run: %d records replayed, %d outside the parameter domain' % (
        len(kept), stats['dropped_out_of_domain']))
  if strict < 10:
    raise tlc.MachineryError('vacuous run: only %d pairs of emitted cases with equal S_yy and distinct r^2' % strict)
  res.assumptions += [
      'scipy.stats.t / f (cdf, ppf) are trusted: the quantiles are planted through the cdf and ppf(cdf(q)) = q is '
      're-checked to 1e-10 (a failure is a machinery error); the transcendental part of the statement is assumed, '
      'what is decided is that design side and analysis side implement the same rational function of the data',
      'planted triples whose flevel = F.cdf(phi; 1, n-1) falls below 0.9 are outside the parameter domain and are '
      'not replayed (counted as dropped_out_of_domain)',
      'integer series: values <= 3, n in 3..5, n_test in 1..3; random float series: n in 3..60, n_test in 1..28, '
      '|corr| <= 0.98, units 1e-2..1e4, with the closed form evaluated exactly in fractions and scipy quantiles',
      'tolerances: required_impact^2 1e-8, post-analysis estimate / scale^2 1e-7, lower bound 1e-6 (relative to the '
      'scale); y -> c y and x -> c x with c a power of two are compared at 1e-12, level shifts at 1e-9']


def replay(res, blob):
  mods = base.load_mods()
  v = blob['case']
  res.traces += 1
  res.case_seen('replay')
  if v['part'] == 'record':
    bad, _, _ = run_record(mods, v['case'], v['seed'], v['kind'], v['sign'])
    for clause, detail in bad:
      res.violate(clause, v, detail)
  elif v['part'] == 'pair':
    ris = []
    for r in (v['a'], v['b']):
      levels = plant(mods['st'], r['npre'], float(r['phi']), float(frac(r['qs'])), float(frac(r['qp'])))
      n = r['npre']
      ris.append(float(diagnostics(mods, r['y'][:n], r['x'][:n], r['ntest'], levels).required_impact))
    bad = judge_pair(v['a'], v['b'], ris[0], ris[1])
    if bad:
      res.violate(bad[0], v, bad[1])
  else:
    for clause, detail in run_random(mods, mods['st'], random_case(v['seed'], v['i']), v['seed']):
      res.violate(clause, v, detail)
