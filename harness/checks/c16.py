"""C16 - eligibility tables are validated and partitioned correctly.

TLC enumerates every table of Eligibility.tla (<= MaxRows rows over the eight 0/1 triples, each with
every single deviation: a missing / duplicated column, a duplicated geo ID in the same or the other
Python type, one bad entry, geo as index, an unrelated extra column), checks that the sequence of
checks of GeoEligibility.__init__ refines the declarative Accept and that the set algebra of
GeoAssignments refines the classes read off each row's triple, and prints one JSON line per table
(accept / reject) and one per query (geos = None or every ordered subset, indices False / True) with
the eleven expected sets.  Every line is replayed into the real GeoEligibility /
get_eligible_assignments on pandas frames built from the abstract table under several presentations
of the geo IDs (names, ints, numeric strings, ints that look like positions).
"""
import json

from harness import tlc

CFG = """SPECIFICATION Spec
CONSTANTS MaxRows = %d
 MaxDefRows = %d
 MaxQRows = %d
 QSampleMod = %d
INVARIANT TypeOK
INVARIANT RefinesAccept
INVARIANT DefectsJudged
INVARIANT RefinesClasses
INVARIANT Partition
INVARIANT EachInEncodedClass
INVARIANT RightUnions
INVARIANT PositionsInGivenOrder
INVARIANT Emit
"""

SETS = ['all', 'c', 't', 'x', 'c_fixed', 't_fixed', 'x_fixed', 'ct', 'cx', 'tx', 'ctx']
CLASSES = SETS[4:]
# abstract geo ID n -> concrete label.  None of the maps is in sorted order, so table order, given
# order and sorted order are three different things.
PRESENTATIONS = {
    'names': {1: 'kappa', 2: 'alpha', 3: 'mu'},
    'ints': {1: 30, 2: 4, 3: 100},
    'numstr': {1: '30', 2: '4', 3: '100'},
    'posints': {1: 2, 2: 0, 3: 1},
}
PRES_ORDER = ['names', 'ints', 'numstr', 'posints']
ENTRY = {'0': 0, '1': 1, '2': 2, '-1': -1, 'nan': float('nan'), 'str1': '1'}
WHYS = {'no geo', 'dup column', 'missing column', 'dup id', 'values', 'zero row'}
DEFECT_KINDS = {'none', 'geo_index', 'extra_col', 'missing', 'dupcol', 'dupid', 'badentry', 'col_order'}


def effective_pres(table, pres):
  """1 vs '1' needs a numeric label; the non-numeric presentation falls back to ints."""
  if pres == 'names' and any(r['q'] == 'other' for r in table['ids']):
    return 'ints'
  return pres


def id_label(table, pres, n):
  return PRESENTATIONS[effective_pres(table, pres)][n]


def build_frame(pd, table, pres):
  """The pandas frame a caller would hand over for the abstract table."""
  p = effective_pres(table, pres)
  ids = []
  for r in table['ids']:
    lab = PRESENTATIONS[p][r['n']]
    if r['q'] == 'other':
      lab = str(lab) if isinstance(lab, int) else int(lab)
    ids.append(lab)
  n = len(table['rows'])
  content = {'geo': ids, 'note': ['n%d' % i for i in range(n)]}
  for k, name in enumerate(['control', 'treatment', 'exclude']):
    content[name] = [ENTRY[row[k]] for row in table['rows']]
  cols = list(table['cols'])
  uniq = [c for i, c in enumerate(cols) if c not in cols[:i]]
  data = {c: list(content[c]) for c in uniq}          # plain lists: pandas infers the dtypes a caller would get
  if table['index'] == 'geo':
    df = pd.DataFrame(data, index=pd.Index(ids, name='geo'))
  else:
    df = pd.DataFrame(data)
  for c in uniq:
    if cols.count(c) > 1:                              # a column supplied twice (same content)
      df = pd.concat([df, df[[c]]], axis=1)
  got_cols = list(df.columns)
  if sorted(got_cols) != sorted(cols):
    raise tlc.MachineryError('frame builder produced columns %r for %r' % (got_cols, cols))
  return df


def run_validate(ge_mod, pd, case, pres):
  """Returns (object or None, None | (clause, detail))."""
  table = case['table']
  df = build_frame(pd, table, pres)
  try:
    obj = ge_mod.GeoEligibility(df)
  except ValueError as e:
    if case['accept']:
      return None, ('Accepts', 'ValueError on a well-formed table: %s' % e)
    return None, None
  except Exception as e:  # pylint: disable=broad-except
    return None, ('ErrorType', '%s instead of %s: %s' % (type(e).__name__,
                                                         'acceptance' if case['accept'] else 'ValueError', e))
  if not case['accept']:
    return obj, ('Rejects', 'malformed table accepted (spec check that rejects: %s)' % case.get('why'))
  return obj, None


def run_query(obj, table, pres, query, raises, expect):
  """Returns None when the code agrees with the contract, else (clause, detail)."""
  geos = None
  if query['given']:
    geos = [str(id_label(table, pres, table['ids'][s - 1]['n'])) for s in query['sel']]
  try:
    a = obj.get_eligible_assignments(geos=geos, indices=query['indices'])
  except ValueError as e:
    if raises:
      return None
    return 'QueryAccepted', 'ValueError for geos=%r indices=%r: %s' % (geos, query['indices'], e)
  except Exception as e:  # pylint: disable=broad-except
    return 'ErrorType', '%s for geos=%r indices=%r: %s' % (type(e).__name__, geos, query['indices'], e)
  if raises:
    return 'QueryRaises', 'geos=None with indices=True answered instead of ValueError'
  for name in SETS:
    got = getattr(a, name, None)
    if query['indices']:
      want = set(expect[name])
    else:
      want = set(str(id_label(table, pres, n)) for n in expect[name])
    if not isinstance(got, (set, frozenset)):
      return 'ResultIsSet', '%s is a %s' % (name, type(got).__name__)
    if set(got) != want:
      return 'Class_' + name, 'geos=%r indices=%r: %s expected %r got %r' % (
          geos, query['indices'], name, sorted(want, key=str), sorted(got, key=str))
  # the eleven sets of one answer are independent objects: what the caller does to one of them (here: a foreign
  # element added in place) leaves the others as the table encodes them
  before = {name: set(getattr(a, name)) for name in SETS}
  for name in SETS:
    tgt = getattr(a, name)
    if isinstance(tgt, set):
      tgt.add('*edited*')
      for other in SETS:
        if other != name and set(getattr(a, other)) != before[other]:
          return 'ClassesIndependent', 'geos=%r indices=%r: after adding an element to the returned %s, %s reads %r' % (
              geos, query['indices'], name, other, sorted(getattr(a, other), key=str))
      tgt.discard('*edited*')
  return None


def table_key(table):
  return json.dumps(table, sort_keys=True)


def finding_key_for(query, clause):
  # D13 (repaired in the tree by eaff290): an empty list of geos answered with the classes of all geos
  if query is not None and query['given'] and not query['sel'] and clause in ('QueryAccepted',) + tuple('Class_' + k for k in SETS):
    return 'C16:empty-geos-list'
  return None


def run(res):
  import pandas as pd
  from matched_markets.methodology import geoeligibility as ge_mod
  thorough = res.tier == 'thorough'
  # quick: every table of <= 3 rows in the legal presentations, every single illegal deviation and every query
  # on the tables of <= 2 rows; thorough: everything on <= 3 rows
  maxrows, maxdef, maxq = (3, 3, 3) if thorough else (3, 2, 2)
  r = tlc.run_tlc('Eligibility', CFG % (maxrows, maxdef, maxq, 0 if thorough else 11), tlc.run_dir('C16'), workers=1, timeout=3000)
  tlc.require_clean(r, 'Eligibility')
  res.add_tlc(r, 'Eligibility')
  if r.violated:
    raise tlc.MachineryError('design-level spec Eligibility violates %s (spec bug, not a code verdict)' % r.violated)
  lines = r.json_lines()
  vcases = [c for c in lines if c['phase'] == 'validate']
  qcases = [c for c in lines if c['phase'] == 'query']
  if len(vcases) != r.init_states or not vcases or not qcases:
    raise tlc.MachineryError('expected one validation case per initial state (%d), got %d; %d query cases' % (
        r.init_states, len(vcases), len(qcases)))
  whys = set(c['why'] for c in vcases if not c['accept'])
  if whys != WHYS:
    raise tlc.MachineryError('not every check of the spec rejected some table: %r' % sorted(whys))
  kinds = set(c['defect']['kind'] for c in vcases)
  if kinds != DEFECT_KINDS:
    raise tlc.MachineryError('defect kinds enumerated: %r' % sorted(kinds))
  by_table = {}
  for c in qcases:
    by_table.setdefault(table_key(c['table']), []).append(c)
  n_acc_tables = sum(1 for c in vcases if c['accept'] and len(c['table']['rows']) <= maxq)
  if len(by_table) < n_acc_tables:      # (larger accepted tables are queried too when the spec samples them)
    raise tlc.MachineryError('%d accepted tables to be queried but queries for %d' % (n_acc_tables, len(by_table)))
  res.extra['tables_queried'] = len(by_table)
  res.exhaustive = True
  res.rule = ('all tables of <= %d rows over the eight 0/1 triples, clean / geo as index / extra column; on tables of '
              '<= %d rows every single illegal deviation (missing / duplicated column, duplicated ID in same / other '
              'type, bad entry 2 / -1 / NaN / \'1\' at every position); for every accepted table of <= %d rows '
              'geos=None and every permutation of every subset (empty list included) x indices False/True; all '
              'enumerated by TLC; distinct = distinct (table, presentation[, query]) replayed; non-trivial = every '
              'case (each runs the real validation or a real query)') % (maxrows, maxdef, maxq)
  stat = {'accepted_replays': 0, 'rejected_replays': 0, 'query_replays': 0, 'query_raises': 0, 'empty_list': 0,
          'none_geos': 0, 'indices_true': 0, 'reordered_indices': 0}
  classes_seen = set()
  kinds_replayed = set()
  for idx, case in enumerate(vcases):
    table = case['table']
    nrows = len(table['rows'])
    kind = case['defect']['kind']
    if thorough:
      press = PRES_ORDER
    else:
      # quick: two of the four presentations per table (rotating)
      k = (idx + res.seed) % len(PRES_ORDER)
      press = [PRES_ORDER[k], PRES_ORDER[(k + 1 + idx // 4 % 3) % len(PRES_ORDER)]]
    queries = by_table.get(table_key(table), []) if case['accept'] else []
    for pres in press:
      res.case_seen((idx, pres))
      res.traces += 1
      kinds_replayed.add(kind)
      obj, bad = run_validate(ge_mod, pd, case, pres)
      stat['accepted_replays' if case['accept'] else 'rejected_replays'] += 1
      if bad:
        res.violate(bad[0], {'phase': 'validate', 'table': table, 'defect': case['defect'], 'presentation': pres,
                             'expected_accept': case['accept'], 'why': case['why']}, bad[1])
        continue
      for qi, qc in enumerate(queries):
        query = qc['query']
        res.case_seen((idx, pres, qi))
        res.traces += 1
        stat['query_replays'] += 1
        stat['query_raises'] += bool(qc['raises'])
        stat['empty_list'] += bool(query['given'] and not query['sel'])
        stat['none_geos'] += bool(not query['given'])
        stat['indices_true'] += bool(query['indices'])
        stat['reordered_indices'] += bool(query['indices'] and query['sel'] != sorted(query['sel']))
        if not qc['raises']:
          classes_seen.update(k for k in CLASSES if qc['expect'][k])
        bad = run_query(obj, table, pres, query, qc['raises'], qc['expect'])
        if bad:
          fresh, _ = run_validate(ge_mod, pd, case, pres)
          again = run_query(fresh, table, pres, query, qc['raises'], qc['expect']) if fresh is not None else None
          res.violate(bad[0], {'phase': 'query', 'table': table, 'defect': case['defect'], 'presentation': pres,
                               'query': query, 'raises': qc['raises'], 'expect': qc['expect']},
                      bad[1] + ('' if again else ' (not reproduced on a fresh object: answer depends on earlier calls)'),
                      finding_key=finding_key_for(query, bad[0]))
      if len(res.violations) > 50:
        break
    if idx % 1303 == 11 or (case['accept'] and nrows == 3 and idx % 97 == 3):
      s = {'table': table, 'defect': case['defect'], 'expect_accept': case['accept'], 'presentation': press[0],
           'frame': {str(k): [repr(x) for x in v] for k, v in
                     build_frame(pd, table, press[0]).reset_index().to_dict(orient='list').items()}}
      if queries:
        qc = queries[(idx * 7) % len(queries)]
        s['query'] = qc['query']
        s['expect'] = qc['expect'] if not qc['raises'] else 'ValueError'
      res.sample(s)
    if len(res.violations) > 50:
      break
  res.extra.update(stat)
  res.extra['validate_cases_from_tlc'] = len(vcases)
  res.extra['query_cases_from_tlc'] = len(qcases)
  if len(res.violations) <= 50:
    if stat['accepted_replays'] == 0 or stat['rejected_replays'] == 0:
      raise tlc.MachineryError('vacuous run: accepted=%d rejected=%d' % (stat['accepted_replays'], stat['rejected_replays']))
    if kinds_replayed != DEFECT_KINDS:
      raise tlc.MachineryError('vacuous run: deviation kinds replayed %r' % sorted(kinds_replayed))
    if not res.violations:
      for k in ('query_replays', 'query_raises', 'empty_list', 'none_geos', 'indices_true', 'reordered_indices'):
        if stat[k] == 0:
          raise tlc.MachineryError('vacuous run: no query of kind %s replayed' % k)
      if classes_seen != set(CLASSES):
        raise tlc.MachineryError('vacuous run: classes exercised %r' % sorted(classes_seen))
  res.assumptions += ['geo IDs are ints or strings; entries are Python ints (or the four bad tokens 2, -1, NaN, \'1\')',
                      'only single deviations from a clean table are explored; a duplicated or missing column is a '
                      'rejection as listed in the Raises section of GeoEligibility.__init__',
                      'queries name geos of the table without repetition, by their string IDs']


def replay(res, blob):
  import pandas as pd
  from matched_markets.methodology import geoeligibility as ge_mod
  c = blob['case']
  res.traces += 1
  res.case_seen('replay')
  if c['phase'] == 'validate':
    case = {'table': c['table'], 'accept': c['expected_accept'], 'why': c.get('why')}
    _, bad = run_validate(ge_mod, pd, case, c['presentation'])
    if bad:
      res.violate(bad[0], c, bad[1])
    return
  case = {'table': c['table'], 'accept': True, 'why': '-'}
  obj, bad = run_validate(ge_mod, pd, case, c['presentation'])
  if bad:
    res.violate(bad[0], c, bad[1])
    return
  bad = run_query(obj, c['table'], c['presentation'], c['query'], c['raises'], c['expect'])
  if bad:
    res.violate(bad[0], c, bad[1], finding_key=finding_key_for(c['query'], bad[0]))
