"""C06 - the TBR posterior of the cumulative effect equals the closed-form model.

spec/TBRModel.tla: TLC enumerates every pair of small-integer per-date group totals (control x, treatment y)
for a set of shapes (n_pre, n_test, n_cool), runs the implementation-shaped pipeline (aggregate -> fit ->
select -> one step per analysed day -> design-side tbrfit) and checks as invariants that it equals the
closed form of Kerman (2017) eq. 5 in exact rational arithmetic, for every layout and both settings of
use_cooldown.  A deterministic sample of the cases (by res.seed) is printed with what the contract demands
(df, loc_k, var_k as exact rationals per analysed day, design-side estimate / scale^2) and each is replayed
into the real TBR / TBRMMDiagnostics on >= 12 concrete long-format frames (six presentation kinds x both
cooldown settings).

This module also holds the machinery shared with C18 (TLC runs, expected values, frame builder).
"""
import os

for _v in ('OMP_NUM_THREADS', 'OPENBLAS_NUM_THREADS', 'MKL_NUM_THREADS'):
  os.environ.setdefault(_v, '1')

import fractions
import hashlib
import math
import multiprocessing
import random
import time

from harness import tlc

Fraction = fractions.Fraction

# ------------------------------------------------------------------------------------------------ TLC
# shape code: 10000 yfree + 1000 maxv + 100 n_pre + 10 n_test + n_cool (see TBRModel.tla)
TIERS = {
    'quick': dict(shapes=[2310, 2311, 2312, 1411], sample_mod=64, nm_mod=8, witness=[2312],
                  max_cases=640),
    'thorough': dict(shapes=[13310, 3311, 3320, 3312, 2410, 2411, 2421, 2510, 1532], sample_mod=128, nm_mod=60,
                     witness=[3311], max_cases=7000),
}

DESIGN_INVARIANTS = ['TypeOK', 'AggregateIsTotals', 'FitIsOLS', 'SelectedAreAnalysed', 'ImplRefinesClosedForm',
                     'Finished', 'DesignAgrees', 'EffectSeriesIdentities']
ACTIONS = ['Aggregate', 'Fit', 'Select', 'Day', 'DesignFit']

CFG = """SPECIFICATION Spec
CONSTANTS Shapes = {%s}
 SampleMod = %d
 SampleRes = %d
 NMMod = %d
 EmitOnly = %s
%s
"""


def shape_text(code):
  return 'n_pre=%d n_test=%d n_cool=%d values 0..%d%s' % (
      code % 1000 // 100, code % 100 // 10, code % 10, code % 10000 // 1000,
      ' (test-period treatment totals free)' if code >= 10000 else '')


def run_model(res, label):
  """The three TLC runs shared by C06 and C18.  Returns (cases, info)."""
  tier = TIERS[res.tier]
  shapes = ', '.join(str(s) for s in tier['shapes'])
  sres = res.seed % 1000003
  # (A) design level: all cases of the universe, every invariant, 16 workers, nothing printed
  cfg_a = CFG % (shapes, tier['sample_mod'], sres, tier['nm_mod'], 'FALSE',
                 '\n'.join('INVARIANT ' + i for i in DESIGN_INVARIANTS))
  ra = tlc.run_tlc('TBRModel', cfg_a, tlc.run_dir(label + '_design'), workers=16, timeout=3000)
  tlc.require_clean(ra, 'TBRModel (design level)')
  res.add_tlc(ra, 'TBRModel.design')
  if ra.violated:
    raise tlc.MachineryError('design-level spec TBRModel violates %s (spec bug, not a code verdict)\n%s' % (
        ra.violated, '\n'.join(ra.error_trace[-2:])[:3000]))
  # (B) emitting run: only the sampled cases are initial states; 1 worker so that lines do not interleave
  cfg_b = CFG % (shapes, tier['sample_mod'], sres, tier['nm_mod'], 'TRUE',
                 '\n'.join('INVARIANT ' + i for i in DESIGN_INVARIANTS + ['Emit']) + '\nPROPERTY Terminates')
  rb = tlc.run_tlc('TBRModel', cfg_b, tlc.run_dir(label + '_emit'), workers=1, timeout=3000, coverage=True)
  tlc.require_clean(rb, 'TBRModel (emitting run)')
  res.add_tlc(rb, 'TBRModel.emit')
  if rb.violated:
    raise tlc.MachineryError('emitting run of TBRModel violates %s (spec bug)' % rb.violated)
  cases = rb.json_lines()
  if not cases or len(cases) != rb.init_states:
    raise tlc.MachineryError('expected one emitted case per sampled initial state (%d), got %d' % (
        rb.init_states, len(cases)))
  for a in ACTIONS:
    if rb.coverage.get(a, (0, 0))[1] <= 0:
      raise tlc.MachineryError('vacuous model run: action %s of TBRModel was never taken (coverage %r)' % (
          a, rb.coverage))
  # (C) the design-level finding: "lower <= estimate <= upper on every date" is NOT an invariant of the model
  cfg_c = CFG % (', '.join(str(s) for s in tier['witness']), 1, 0, 1, 'FALSE', 'INVARIANT EffectSeriesOrdered')
  rc = tlc.run_tlc('TBRModel', cfg_c, tlc.run_dir(label + '_witness'), workers=1, timeout=3000)
  tlc.require_clean(rc, 'TBRModel (witness run)')
  res.add_tlc(rc, 'TBRModel.witness')
  if rc.violated != 'EffectSeriesOrdered':
    raise tlc.MachineryError('TLC did not produce the witness of a non-monotone posterior scale on shapes %r '
                             '(violated=%r)' % (tier['witness'], rc.violated))
  witness = ''
  for line in rc.stdout.splitlines():
    if line.startswith('/\\ x = ') or line.startswith('/\\ shape = '):
      witness += line[3:] + '; '
  cases.sort(key=lambda c: (c['shape'], c['x'], c['y']))
  for c in cases:
    cross_check_case(c)
  info = {'universe_cases': ra.init_states, 'emitted_cases': len(cases),
          'emitted_nonmonotone': sum(1 for c in cases if not c['mono']),
          'emitted_ties': sum(1 for c in cases if c['mono'] and not c['strict']),
          'witness_scale_not_monotone': witness.strip(),
          'shapes': {str(s): shape_text(s) for s in tier['shapes']}}
  return cases, info


def thin(cases, res):
  """Deterministic thinning to the replay budget; keeps every non-monotone / tie case first."""
  cap = TIERS[res.tier]['max_cases']
  if len(cases) <= cap:
    return cases
  special = [c for c in cases if not c['strict']]
  plain = [c for c in cases if c['strict']]
  if len(special) > cap // 3:
    st = len(special) / float(cap // 3)
    special = [special[int(i * st)] for i in range(cap // 3)]
  room = cap - len(special)
  step = len(plain) / float(room)
  off = res.seed % max(1, int(step))
  picked = [plain[min(len(plain) - 1, int(i * step) + off)] for i in range(room)]
  out = special + picked
  out.sort(key=lambda c: (c['shape'], c['x'], c['y']))
  return out


def prod(xs):
  p = 1
  for v in xs:
    p *= v
  return p


def cross_check_case(c):
  """Consistency of the emitted record (a failure here is a spec / tooling bug)."""
  n, t = c['npre'], c['ntest'] + c['ncool']
  if not (len(c['locnum']) == t == len(c['V']) and len(c['resnum']) == n and c['df'] == n - 2):
    raise tlc.MachineryError('malformed emitted case %r' % (c,))
  sig2 = Fraction(c['sig2'][0], c['sig2'][1])
  var_t = Fraction(c['D'] * c['V'][-1], prod(c['varden']))
  if Fraction(c['dest'][0], c['dest'][1]) != Fraction(c['locnum'][-1], c['nk']) or \
     sig2 * Fraction(c['dsf'][0], c['dsf'][1]) != var_t:
    raise tlc.MachineryError('emitted design-side values disagree with the analysis side: %r' % (c,))
  mine = contract_eval(c['x'], c['y'], n, c['ntest'], c['ncool'])
  for k in ('df', 'K', 'P', 'A', 'nk', 'D', 'resnum', 'locnum', 'V', 'varden', 'monosign', 'mono', 'strict', 'lab'):
    if mine[k] != c[k]:
      raise tlc.MachineryError('the integer evaluator of TBRModel.Contract disagrees with TLC on %s: %r vs %r (%r)' % (
          k, mine[k], c[k], c))
  for k in ('dest', 'dsf', 'sig2'):
    if Fraction(*mine[k]) != Fraction(*c[k]):
      raise tlc.MachineryError('the integer evaluator of TBRModel.DesignFit disagrees with TLC on %s: %r vs %r' % (
          k, mine[k], c[k]))


def contract_eval(x, y, npre, ntest, ncool):
  """Contract / DesignFit of TBRModel.tla evaluated in unbounded integers: the same record TLC emits per case.
  TLC's integers are 32-bit, so series longer than a handful of dates cannot be evaluated there; this evaluator is
  compared field by field with every case TLC does emit (cross_check_case) before it is used for longer series."""
  n, t = npre, ntest + ncool
  xs, ys = x[:n], y[:n]
  S, Q, Sy, Qy = sum(xs), sum(v * v for v in xs), sum(ys), sum(v * v for v in ys)
  Sxy = sum(a * b for a, b in zip(xs, ys))
  K = n * Q - S * S
  P = n * Sxy - S * Sy
  D = (n * Qy - Sy * Sy) * K - P * P
  A = Sy * K - P * S
  nk = n * K
  res = [nk * y[i] - A - n * P * x[i] for i in range(n)]
  cx = [sum(x[n:n + k]) for k in range(1, t + 1)]
  cy = [sum(y[n:n + k]) for k in range(1, t + 1)]
  e = [n * cx[k - 1] - k * S for k in range(1, t + 1)]
  loc = [nk * cy[k - 1] - k * A - n * P * cx[k - 1] for k in range(1, t + 1)]
  v = [k * n * K + k * k * K + e[k - 1] ** 2 for k in range(1, t + 1)]
  sign = lambda a, b: 1 if a > b else (0 if a == b else -1)
  mono = [sign(v[k], v[k - 1] if k else 0) for k in range(t)]
  # design side: tbrfit(mean x, mean y) over the t analysed days
  dx = Fraction(cx[-1], t) - Fraction(S, n)
  dy = Fraction(cy[-1], t) - Fraction(Sy, n)
  b = Fraction(P, K) if K else None
  dest = t * (dy - b * dx) if K else None
  dsf = t * t * ((1 + dx * dx / Fraction(K, n * n)) / n + Fraction(1, t)) if K else None
  return {'shape': 0, 'npre': n, 'ntest': ntest, 'ncool': ncool, 'x': list(x), 'y': list(y),
          'lab': [0] * n + [1] * ntest + [2] * ncool, 'df': n - 2, 'K': K, 'P': P, 'A': A, 'nk': nk, 'D': D,
          'resnum': res, 'locnum': loc, 'V': v, 'varden': [n - 2, n, n, K, K], 'monosign': mono,
          'mono': all(m >= 0 for m in mono), 'strict': all(m > 0 for m in mono),
          'dest': [dest.numerator, dest.denominator] if K else None,
          'dsf': [dsf.numerator, dsf.denominator] if K else None, 'sig2': [D, (n - 2) * nk]}


def expected(c):
  """Floats the contract demands, from TLC's exact rationals."""
  den = prod(c['varden'])
  var = [Fraction(c['D'] * v, den) for v in c['V']]
  return {'df': c['df'],
          'loc': [float(Fraction(v, c['nk'])) for v in c['locnum']],
          'var': [float(v) for v in var],
          'sd': [math.sqrt(v) for v in var],
          'res': [float(Fraction(v, c['nk'])) for v in c['resnum']],
          'sig2': float(Fraction(c['sig2'][0], c['sig2'][1])),
          'a': float(Fraction(c['A'], c['nk'])), 'b': float(Fraction(c['P'], c['K']))}


# ------------------------------------------------------------------------------------------------ frames
# presentation kinds: which liberties the concrete frame takes
#   split      2-3 geos per group, integer parts (zeros and negatives included) summing to the total; geos with a
#              zero part may have no row on that date
#   shuffled   rows in random order
#   unassigned extra geos with the unassigned group label (-1); partial: they have no rows on some dates
#   extra      extra dates with the unassigned period label (-1), anywhere in the calendar
KIND_FLAGS = {
    'one_geo': (),
    'split': ('split',),
    'split_shuffled': ('split', 'shuffled'),
    'unassigned_geos': ('split', 'unassigned'),
    'extra_dates': ('extra',),
    'all_shuffled': ('split', 'unassigned', 'partial', 'extra', 'shuffled'),
    'unassigned_partial': ('split', 'unassigned', 'partial'),
    'assigned_all_shuffled': ('split', 'unassigned', 'shuffled'),
}
KINDS = ['one_geo', 'split', 'split_shuffled', 'unassigned_geos', 'extra_dates', 'all_shuffled']
PRE, TEST, COOL, NOPERIOD = 0, 1, 2, -1
CONTROL, TREATMENT, NOGROUP = 1, 2, -1


LONG_NPRE = [60, 122, 123, 124, 150, 200, 365, 500, 90, 130, 250, 121]
LONG_KINDS = ['one_geo', 'split_shuffled']


def long_cases(seed, count):
  """Series of realistic length (pre-periods of 60..500 dates), evaluated by contract_eval."""
  out = []
  for j in range(count):
    rng = random.Random(seed * 1000003 + j * 7919 + 17)
    n = LONG_NPRE[j % len(LONG_NPRE)]
    ntest, ncool = rng.randint(5, 28), rng.choice([0, 3, 7])
    total = n + ntest + ncool
    level, x = rng.randint(20, 60), []
    for i in range(total):
      level = max(5, min(90, level + rng.randint(-3, 3)))
      x.append(level + (i % 7 == 0) * 4)
    slope = rng.choice([1, 2, 3])
    y = [slope * v + rng.randint(0, 9) + (3 if i >= n else 0) for i, v in enumerate(x)]
    c = contract_eval(x, y, n, ntest, ncool)
    if c['K'] <= 0 or c['D'] <= 0:
      continue
    c['shape'] = -(j + 1)
    c['long'] = True
    out.append(c)
  return out


def frame_rng(seed, c, kind, salt=''):
  h = hashlib.sha256(('%d|%d|%r|%r|%s|%s' % (seed, c['shape'], c['x'], c['y'], kind, salt)).encode()).hexdigest()
  return random.Random(int(h[:16], 16))


def split_total(rng, total, parts):
  vals = [rng.randint(-2, 4) for _ in range(parts - 1)]
  return vals + [total - sum(vals)]


def build_rows(c, kind, seed, cost=None, fixed=False, salt=''):
  """One concrete long-format presentation of the abstract case.

  cost: None or (cx, cy) per-date integer group totals of the cost column (same dates as x, y).
  fixed: the cost column is to be zero wherever the totals do not say otherwise.
  Returns (rows, meta); rows are dicts date (day offset), geo, group, period, response[, cost].
  """
  rng = frame_rng(seed, c, kind, salt)
  x, y, lab = c['x'], c['y'], c['lab']
  n = len(x)
  cx, cy = cost if cost is not None else ([0] * n, [0] * n)
  flags = KIND_FLAGS[kind]
  split, extra, unassigned = 'split' in flags, 'extra' in flags, 'unassigned' in flags
  partial, shuffled = 'partial' in flags, 'shuffled' in flags
  free_cost = cost is not None and not fixed
  # calendar: assigned dates in order, extra dates (unassigned period) anywhere
  slots = [(lab[i], i) for i in range(n)]
  if extra:
    for _ in range(rng.randint(2, 3)):
      slots.insert(rng.randint(0, len(slots)), (NOPERIOD, None))
  rows = []
  ng = {CONTROL: rng.randint(2, 3), TREATMENT: rng.randint(2, 3)} if split else {CONTROL: 1, TREATMENT: 1}
  for day, (period, i) in enumerate(slots):
    for grp, tot, ctot in ((CONTROL, x, cx), (TREATMENT, y, cy)):
      if i is None:
        vals = [rng.randint(0, 9) for _ in range(ng[grp])]
        cvals = [rng.randint(0, 3) if free_cost else 0 for _ in range(ng[grp])]
      else:
        vals = split_total(rng, tot[i], ng[grp]) if split else [tot[i]]
        cvals = split_total(rng, ctot[i], ng[grp]) if (split and ctot[i] != 0) else \
            [ctot[i]] + [0] * (ng[grp] - 1)
      keep = list(range(ng[grp]))
      if split:   # geos without a row on a date contribute nothing; at least one row per (group, date) stays
        drop = [j for j in keep if vals[j] == 0 and cvals[j] == 0 and rng.random() < 0.5]
        if len(drop) < len(keep):
          keep = [j for j in keep if j not in drop]
      for j in keep:
        rows.append({'date': day, 'geo': 10 * grp + j, 'group': grp, 'period': period,
                     'response': vals[j], 'cost': cvals[j]})
    if unassigned:
      for j in range(2):
        if partial and (day == 0 or rng.random() < 0.4):
          continue
        rows.append({'date': day, 'geo': 90 + j, 'group': NOGROUP, 'period': period,
                     'response': rng.randint(0, 9), 'cost': rng.randint(0, 2) if free_cost else 0})
  if unassigned and not partial:
    # the unassigned geos have a longer history: rows (labelled pre-period) on two dates before the first date of the
    # assigned groups.  Nothing about the two groups changes.
    for day in (-2, -1):
      for j in range(2):
        rows.append({'date': day, 'geo': 90 + j, 'group': NOGROUP, 'period': PRE,
                     'response': rng.randint(0, 9), 'cost': rng.randint(0, 2) if free_cost else 0})
  if shuffled:
    rng.shuffle(rows)
  meta = {'kind': kind, 'salt': salt, 'n_geos': dict(ng), 'extra_dates': [d for d, s in enumerate(slots) if s[1] is None],
          'assigned_days': [d for d, s in enumerate(slots) if s[1] is not None],
          'unassigned_geos': unassigned, 'unassigned_partial': bool(unassigned and partial), 'shuffled': shuffled}
  meta['date_step'] = date_step(rows)
  return rows, meta


BASE_DATE = '2020-02-25'   # straddles a leap day and a month end


def date_step(rows):
  """Calendar step between consecutive dates of a frame (deterministic in the rows)."""
  return (1, 1, 7, 2)[(len(rows) + int(sum(r['response'] for r in rows))) % 4]


def to_frame(pd, rows, with_cost, int_dtype=False):
  base = pd.Timestamp(BASE_DATE)
  cols = ['date', 'geo', 'group', 'period', 'response'] + (['cost'] if with_cost else [])
  df = pd.DataFrame([{k: r[k] for k in cols} for r in rows], columns=cols)
  # the model only uses the ORDER of the dates: daily, every other day or weekly calendars give the same posterior
  step = date_step(rows)
  df['date'] = [base + pd.Timedelta(days=int(d) * step) for d in df['date']]
  if not int_dtype:
    df['response'] = df['response'].astype(float)
    if with_cost:
      df['cost'] = df['cost'].astype(float)
  return df


# Declared semantics: the frame may name its columns and code its groups / periods differently, provided fit() is
# told (key_*, group_*, period_* keyword arguments).  Half of the frames use the library defaults.
SEMANTICS = {
    3: {'names': {}, 'group': {CONTROL: 7, TREATMENT: 3, NOGROUP: 0}, 'period': {PRE: 5, TEST: 6, COOL: 4, NOPERIOD: 9}},
    4: {'names': {'date': 'day', 'geo': 'market', 'group': 'arm', 'period': 'phase', 'response': 'sales',
                  'cost': 'spend'}, 'group': {}, 'period': {}},
    # the default codes, permuted: code that ignores the declaration reads the wrong group / period
    5: {'names': {'date': 'day', 'geo': 'market', 'group': 'arm', 'period': 'phase', 'response': 'sales',
                  'cost': 'spend'},
        'group': {CONTROL: 2, TREATMENT: 1, NOGROUP: -1}, 'period': {PRE: 2, TEST: 0, COOL: 1, NOPERIOD: -1}},
}


def semantic_variant(df):
  """Which declared semantics a frame is presented under (deterministic in its content)."""
  return (len(df) * 5 + int(abs(float(df['response'].sum())))) % 6


def relabel(df, variant):
  """(frame under the declared semantics, keyword arguments for fit(), name of the response column)."""
  sem = SEMANTICS.get(variant)
  if sem is None:
    return df, {}, 'response'
  d = df.copy()
  kw = {}
  if sem['group']:
    d['group'] = d['group'].map(sem['group']).astype(int)
    kw.update(group_control=sem['group'][CONTROL], group_treatment=sem['group'][TREATMENT],
              group_unassigned=sem['group'][NOGROUP])
  if sem['period']:
    d['period'] = d['period'].map(sem['period']).astype(int)
    kw.update(period_pre=sem['period'][PRE], period_test=sem['period'][TEST], period_cooldown=sem['period'][COOL],
              period_unassigned=sem['period'][NOPERIOD])
  if sem['names']:
    d = d.rename(columns=sem['names'])
    kw.update({'key_' + k: v for k, v in sem['names'].items() if k in df.columns})
  return d, kw, sem['names'].get('response', 'response')


def close(got, exp, scale=1.0, rel=1e-9):
  return abs(got - exp) <= rel * max(1.0, abs(exp), abs(scale))


# ------------------------------------------------------------------------------------------------ C06 replay
LEVELS = [0.8, 0.9, 0.99]
RESCALES = [1.0, 0.25, 8.0]
COMBOS = [(lv, tl, th, rs) for lv in LEVELS for tl in (1, 2) for th in (0, 1, -1) for rs in RESCALES]   # 54
FINDING_COMBOS = [(0.5, 1, 0, 1.0), (0.25, 1, 1, 1.0), (0.4, 1, -1, 8.0)]
KEY_LEVEL = 'C06:one-tailed-level-le-half'


def level_finding(level, tails):
  """The class of call sites of the known finding D12."""
  return tails == 1 and level <= 0.5


def refit_prelude(model, df, iroas=False, variant=0):
  """A re-fit is a fit: the object is first fitted on a different frame of the same layout and asked for every report
  (so that anything it memoises is filled), then fitted on the frame under test. Returns True when the prelude ran.
  df is the frame under the default semantics; variant the declared semantics of the frame under test."""
  import numpy as np
  if int(abs(float(df['response'].sum())) * 7 + len(df)) % 2:
    return False
  d2 = df.copy()
  k = np.arange(len(d2))
  d2['response'] = d2['response'].astype(float) * 3.0 + (k % 5) ** 2
  if 'cost' in d2.columns:
    d2['cost'] = d2['cost'].astype(float) * 2.0 + (k % 3)
  d2, kw, target = relabel(d2, variant)
  try:
    if iroas:
      model.fit(d2, **kw)
      for call in (lambda: model.summary(nsims=40, random_state=0),
                   lambda: model.estimate_pointwise_and_cumulative_effect(metric='tbr_response'),
                   lambda: model.estimate_pointwise_and_cumulative_effect(metric='tbr_cost')):
        try:
          call()
        except Exception:  # pylint: disable=broad-except
          pass
    else:
      model.fit(d2, target, **kw)
      model.summary(report='all')
      model.causal_cumulative_distribution()
  except Exception:  # pylint: disable=broad-except
    pass
  return True


def check_tbr(mods, c, exp, rows, meta, uc, combos, with_cost, int_dtype, matched=False):
  """Fits the real TBR on one frame; returns a list of (clause, detail, finding_key, combo)."""
  pd, np, st, tbr = mods['pd'], mods['np'], mods['st'], mods['tbr']
  out = []
  df = to_frame(pd, rows, with_cost, int_dtype)
  if with_cost and not int_dtype and len(df) % 3 == 0:
    # columns the analysis of `response` does not use may hold anything, e.g. unknown costs and free-text remarks
    df.loc[df.index[::4], 'cost'] = float('nan')
    df['remark'] = [None if k % 3 else 'checked' for k in range(len(df))]
  ndays = c['ntest'] + (c['ncool'] if uc else 0)
  try:
    m = tbr.TBR(use_cooldown=uc)
    variant = semantic_variant(df)
    refit_prelude(m, df, variant=variant)
    fdf, kw, target = relabel(df, variant)
    m.fit(fdf, target, **kw)
    if len(rows) % 2 == 0:
      # what causal_effect() returns is the caller's: it is overwritten in place before anything else is asked
      for pers in ((m.periods.test, m.periods.cooldown), (m.periods.test,)):
        try:
          eff = m.causal_effect(pers)
          eff.iloc[:] = 0.0
        except Exception:  # pylint: disable=broad-except
          pass
    dist = m.causal_cumulative_distribution()
    got_df = float(dist.args[0])
    loc = np.asarray(dist.kwds['loc'], dtype=float).flatten()
    scale = np.asarray(dist.kwds['scale'], dtype=float).flatten()
  except Exception as e:  # pylint: disable=broad-except
    return [('FitAndPosteriorAreTotal', '%s: %s' % (type(e).__name__, e), None, None)]
  if len(loc) != ndays or len(scale) != ndays:
    return [('AnalysedDays', 'use_cooldown=%s: %d analysed days reported, %d demanded' % (uc, len(loc), ndays), None, None)]
  if got_df != exp['df']:
    out.append(('DegreesOfFreedom', 'df=%r, demanded n_pre-2=%d' % (got_df, exp['df']), None, None))
  for k in range(ndays):
    if not close(loc[k], exp['loc'][k], exp['sd'][k]):
      out.append(('Location', 'day %d: loc=%.12g demanded %.12g' % (k + 1, loc[k], exp['loc'][k]), None, None))
      break
    if not close(scale[k] ** 2, exp['var'][k]):
      out.append(('ScaleKerman5', 'day %d: scale^2=%.12g demanded %.12g' % (k + 1, scale[k] ** 2, exp['var'][k]), None, None))
      break
  if out:
    return out
  # single-day accessor agrees with the vector
  kk = (len(rows) + ndays) % ndays
  try:
    # the day is selected by an index into the analysed days: from the front (kk) and from the back (kk - ndays)
    for tix in (kk, kk - ndays):
      one = m.causal_cumulative_distribution(time=tix, rescale=0.25)
      if not (close(float(one.kwds['loc']), 0.25 * exp['loc'][kk], exp['sd'][kk]) and
              close(float(one.kwds['scale']), 0.25 * exp['sd'][kk])):
        out.append(('SingleDayAccessor', 'time=%d rescale=0.25: loc=%r scale=%r demanded %r %r' % (
            tix, one.kwds['loc'], one.kwds['scale'], 0.25 * exp['loc'][kk], 0.25 * exp['sd'][kk]), None, None))
        break
  except Exception as e:  # pylint: disable=broad-except
    out.append(('SingleDayAccessor', '%s: %s' % (type(e).__name__, e), None, None))
  for j, combo in enumerate(combos):
    level, tails, thsign, rescale = combo
    thr = thsign * (abs(exp['loc'][ndays - 1]) + 0.5) * rescale
    key = KEY_LEVEL if level_finding(level, tails) else None
    try:
      rep = m.summary(level=level, threshold=thr, tails=tails, report='all', rescale=rescale)
      last = m.summary(level=level, threshold=thr, tails=tails, report='last', rescale=rescale) if j == 0 else None
    except Exception as e:  # pylint: disable=broad-except
      out.append(('SummaryIsTotal', '%s: %s' % (type(e).__name__, e), None, combo))
      continue
    bad = judge_summary(np, st, rep, last, exp, ndays, level, tails, thr, rescale)
    if bad:
      out.append((bad[0], bad[1], key if bad[0] in ('LowerLeEstimate', 'PrecisionIsEstimateMinusLower') else None, combo))
  if matched:
    # `lower` depends on level and tails through the tail probability (1 - level) / tails only
    try:
      one = m.summary(level=0.9, tails=1, report='all')
      two = m.summary(level=0.8, tails=2, report='all')
      for k in range(ndays):
        if not close(float(one.iloc[k]['lower']), float(two.iloc[k]['lower']), exp['sd'][k]):
          out.append(('LowerDependsOnTailProbability', 'day %d: lower=%.12g at (level 0.9, tails 1) but %.12g at '
                      '(level 0.8, tails 2)' % (k + 1, float(one.iloc[k]['lower']), float(two.iloc[k]['lower'])), None, None))
          break
    except Exception as e:  # pylint: disable=broad-except
      out.append(('SummaryIsTotal', '%s: %s' % (type(e).__name__, e), None, None))
  return out


def judge_summary(np, st, rep, last, exp, ndays, level, tails, thr, rescale):
  if rep.shape[0] != ndays:
    return 'SummaryRows', "report='all' has %d rows for %d analysed days" % (rep.shape[0], ndays)
  ratios = []
  for k in range(ndays):
    row = rep.iloc[k]
    eloc, esd = rescale * exp['loc'][k], rescale * exp['sd'][k]
    est, lower, upper, prec = float(row['estimate']), float(row['lower']), float(row['upper']), float(row['precision'])
    if not close(est, eloc, esd):
      return 'EstimateIsLocation', 'day %d: estimate=%.12g demanded %.12g (rescale %g)' % (k + 1, est, eloc, rescale)
    if not close(float(row['scale']), esd):
      return 'ScaleColumn', 'day %d: scale=%.12g demanded rescale*sqrt(var)=%.12g' % (k + 1, float(row['scale']), esd)
    if not lower <= est:
      return 'LowerLeEstimate', 'day %d: lower=%.12g > estimate=%.12g (level %g tails %d)' % (k + 1, lower, est, level, tails)
    if not est <= upper:
      return 'EstimateLeUpper', 'day %d: estimate=%.12g > upper=%.12g (level %g tails %d)' % (k + 1, est, upper, level, tails)
    if not close(prec, est - lower, max(abs(est), abs(lower))):
      return 'PrecisionIsEstimateMinusLower', 'day %d: precision=%.12g, estimate-lower=%.12g' % (k + 1, prec, est - lower)
    p_exp = 1.0 - st.t.cdf((thr - eloc) / esd, exp['df'])
    if not abs(float(row['probability']) - p_exp) <= 1e-9:
      return 'ProbabilityAboveThreshold', 'day %d: probability=%.12g demanded %.12g (threshold %g)' % (
          k + 1, float(row['probability']), p_exp, thr)
    if float(row['level']) != level or not close(float(row['posterior_threshold']), thr, rel=1e-12):
      return 'EchoedArguments', 'day %d: level=%r threshold=%r' % (k + 1, row['level'], row['posterior_threshold'])
    ratios.append((est - lower) / esd)
  # lower is a fixed quantile of the posterior: the standardised distance to the estimate is the same every day
  for k in range(1, ndays):
    if not close(ratios[k], ratios[0], rel=1e-7):
      return 'LowerIsAFixedQuantile', '(estimate-lower)/scale differs between days: %r' % (ratios,)
  if last is None:
    return None
  if last.shape[0] != 1:
    return 'LastIsOneRow', "report='last' has %d rows" % last.shape[0]
  a, b = last.iloc[0], rep.iloc[ndays - 1]
  if last.index[0] != rep.index[ndays - 1]:
    return 'LastIsLastRow', "report='last' is dated %r, last row of 'all' %r" % (last.index[0], rep.index[ndays - 1])
  for col in rep.columns:
    va, vb = float(a[col]), float(b[col])
    if not (va == vb or (math.isinf(va) and math.isinf(vb) and va * vb > 0) or close(va, vb, rel=1e-12)):
      return 'LastIsLastRow', "column %s: report='last' %r, last row of 'all' %r" % (col, va, vb)
  return None


def check_design_side(mods, c, exp, uc):
  """TBRMMDiagnostics.tbrfit on the same data must be the posterior of the last analysed day."""
  np, st = mods['np'], mods['st']
  n = c['npre']
  ndays = c['ntest'] + (c['ncool'] if uc else 0)
  xa, ya = c['x'][n:n + ndays], c['y'][n:n + ndays]
  sig_level = [0.9, 0.8, 0.95][(sum(c['x']) + ndays) % 3]
  try:
    par = mods['par'].TBRMMDesignParameters(n_test=ndays, iroas=1.0, sig_level=sig_level)
    diag = mods['diag'].TBRMMDiagnostics([float(v) for v in c['y'][:n]], par)
    diag.x = [float(v) for v in c['x'][:n]]
    if (sum(c['y']) + n) % 2 == 0:     # as on the diagnostics object of a stored design: every test was read before
      _ = (diag.aatest, diag.bbtest, diag.dwtest, diag.tests_ok)
    f = diag.tbrfit(float(np.mean(xa)), float(np.mean(ya)))
  except Exception as e:  # pylint: disable=broad-except
    return 'DesignFitIsTotal', '%s: %s' % (type(e).__name__, e)
  k = ndays - 1
  if not close(float(f.estimate), exp['loc'][k], exp['sd'][k]):
    return 'DesignEstimate', 'tbrfit estimate=%.12g, analysis-side loc of the last day %.12g' % (f.estimate, exp['loc'][k])
  if not close(float(f.scale) ** 2, exp['var'][k]):
    return 'DesignScale', 'tbrfit scale^2=%.12g, analysis-side var of the last day %.12g' % (f.scale ** 2, exp['var'][k])
  if not close(float(f.sigma) ** 2, exp['sig2']):
    return 'DesignSigma', 'tbrfit sigma^2=%.12g demanded %.12g' % (f.sigma ** 2, exp['sig2'])
  hw = st.t.ppf(sig_level, exp['df']) * exp['sd'][k]
  if not close(float(f.cihw), hw):
    return 'DesignHalfWidth', 'tbrfit cihw=%.12g demanded t.ppf(%g, %d)*scale=%.12g' % (f.cihw, sig_level, exp['df'], hw)
  return None


_MODS = None


def load_mods():
  global _MODS
  if _MODS is None:
    import numpy as np
    import pandas as pd
    from scipy import stats as st
    from matched_markets.methodology import tbr
    from matched_markets.methodology import tbr_iroas
    from matched_markets.methodology import tbrmmdesignparameters
    from matched_markets.methodology import tbrmmdiagnostics
    import warnings
    # statsmodels re-enables its own warning categories on import; the fixed-cost fit (all-zero regressor) would
    # print a SingularMatrixWarning per fit
    warnings.simplefilter('ignore')
    _MODS = {'np': np, 'pd': pd, 'st': st, 'tbr': tbr, 'iroas': tbr_iroas, 'par': tbrmmdesignparameters,
             'diag': tbrmmdiagnostics}
  return _MODS


def case_public(c):
  return {k: c[k] for k in ('shape', 'npre', 'ntest', 'ncool', 'x', 'y', 'lab', 'df', 'K', 'P', 'A', 'nk', 'D',
                            'resnum', 'locnum', 'V', 'varden', 'monosign', 'mono', 'strict', 'dest', 'dsf', 'sig2')}


def combos_for(idx, fidx, with_finding):
  base = (idx * 12 + fidx) * 3
  combos = [COMBOS[(base + j * 19) % len(COMBOS)] for j in range(3)]
  if with_finding:
    combos.append(FINDING_COMBOS[(idx // 16) % len(FINDING_COMBOS)])
  return combos


def one_frame(mods, c, exp, seed, kind, uc, combos, with_cost, int_dtype, matched=False):
  rows, meta = build_rows(c, kind, seed, cost=None)
  if with_cost:
    rng = frame_rng(seed, c, kind, 'cost')
    for r in rows:
      r['cost'] = rng.randint(0, 5)
  bad = check_tbr(mods, c, exp, rows, meta, uc, combos, with_cost, int_dtype, matched)
  return bad, meta


def work(job):
  """Replays one abstract case (runs in a worker process)."""
  idx, c, seed = job
  mods = load_mods()
  exp = expected(c)
  out = {'idx': idx, 'viol': [], 'traces': 0, 'kinds': {}, 'uc': {True: 0, False: 0}, 'combos': set(), 'keys': []}
  fidx = 0
  for ki, kind in enumerate(KINDS):
    if c.get('long') and kind not in LONG_KINDS:
      continue
    for uc in (True, False):
      with_finding = (idx % 16 == 5 and ki == idx // 16 % len(KINDS) and uc)
      combos = combos_for(idx, fidx, with_finding)
      with_cost = (ki + idx) % 2 == 0
      int_dtype = kind == 'one_geo' and idx % 2 == 1
      matched = ki == idx % len(KINDS) and uc == (idx % 2 == 0)
      bad, meta = one_frame(mods, c, exp, seed, kind, uc, combos, with_cost, int_dtype, matched)
      out['traces'] += 1
      out['kinds'][kind] = out['kinds'].get(kind, 0) + 1
      out['uc'][uc] += 1
      out['combos'].update(combos)
      out['keys'].append((idx, kind, uc))
      for clause, detail, key, combo in bad:
        out['viol'].append((clause, {'case': case_public(c), 'kind': kind, 'use_cooldown': uc, 'seed': seed,
                                     'combos': [list(x) for x in combos], 'combo': list(combo) if combo else None,
                                     'with_cost': with_cost, 'int_dtype': int_dtype, 'matched': matched, 'frame': meta},
                            detail, key))
      fidx += 1
  for uc in (True, False):
    bad = check_design_side(mods, c, exp, uc)
    out['traces'] += 1
    if bad:
      out['viol'].append((bad[0], {'case': case_public(c), 'kind': 'design_side', 'use_cooldown': uc, 'seed': seed},
                          bad[1], None))
  return out


def pool_map(fn, jobs, procs=16):
  if len(jobs) < 4:
    return [fn(j) for j in jobs]
  ctx = multiprocessing.get_context('fork')
  with ctx.Pool(min(procs, os.cpu_count() or 1)) as pool:
    return pool.map(fn, jobs, chunksize=max(1, len(jobs) // (procs * 8)))


def run(res):
  load_mods()
  cases, info = run_model(res, 'C06')
  cases = thin(cases, res)
  res.extra.update(info)
  res.extra['replayed_cases'] = len(cases)
  res.exhaustive = False
  res.rule = ('TLC model-checks every case of the universe (all integer series within the listed shapes with K > 0 and '
              'RSS > 0) and emits the cases with Hash %% %d = seed-derived residue plus a sample of the non-monotone '
              'ones; distinct = distinct (abstract case, presentation kind, use_cooldown) replayed into the real code; '
              'non-trivial = every one (each fits the model and reads posterior and summaries)' %
              TIERS[res.tier]['sample_mod'])
  t0 = time.time()
  longs = long_cases(res.seed, 48 if res.tier == 'thorough' else 12)
  res.extra['long_series_cases'] = {'count': len(longs), 'n_pre': sorted({c['npre'] for c in longs}),
                                    'evaluator': 'contract_eval (unbounded integers), compared with TLC on all %d '
                                                 'emitted cases' % len(cases)}
  results = pool_map(work, [(i, c, res.seed) for i, c in enumerate(cases)] +
                     [(len(cases) + i, c, res.seed) for i, c in enumerate(longs)])
  kinds, ucs, combos = {}, {True: 0, False: 0}, set()
  per_key = {}
  for out in results:
    res.traces += out['traces']
    for k in out['keys']:
      res.case_seen(k)
    for k, v in out['kinds'].items():
      kinds[k] = kinds.get(k, 0) + v
    for k, v in out['uc'].items():
      ucs[k] += v
    combos.update(out['combos'])
    for clause, case, detail, key in out['viol']:
      per_key[key] = per_key.get(key, 0) + 1
      if per_key[key] <= (300 if key is None else 60):   # known classes never crowd out a plain violation
        res.violate(clause, case, detail, finding_key=key)
  res.extra['replay_wall_s'] = round(time.time() - t0, 1)
  res.extra['failing_calls_by_class'] = {str(k): v for k, v in per_key.items()}
  res.extra['frames_by_kind'] = kinds
  res.extra['frames_by_use_cooldown'] = {str(k): v for k, v in ucs.items()}
  res.extra['summary_argument_combinations_used'] = len(combos)
  for i in range(0, len(cases), max(1, len(cases) // 5)):
    c = cases[i]
    e = expected(c)
    res.sample({'x': c['x'], 'y': c['y'], 'periods': c['lab'], 'df': c['df'],
                'loc': ['%d/%d' % (v, c['nk']) for v in c['locnum']],
                'var': ['%d*%d/%d' % (c['D'], v, prod(c['varden'])) for v in c['V']],
                'var_float': e['var'], 'scale_monotone': c['mono'],
                'design_side': {'estimate': c['dest'], 'scale2_over_sigma2': c['dsf'], 'sigma2': c['sig2']}})
  # vacuity guards
  shapes_seen = {c['shape'] for c in cases}
  if shapes_seen != set(TIERS[res.tier]['shapes']):
    raise tlc.MachineryError('vacuous run: shapes replayed %r, configured %r' % (sorted(shapes_seen), TIERS[res.tier]['shapes']))
  if not any(c['mono'] for c in cases) or not any(not c['mono'] for c in cases):
    raise tlc.MachineryError('vacuous run: monotone and non-monotone scale sequences must both be replayed (%r)' % info)
  if not any(c['npre'] == 3 for c in cases) or not any(c['ncool'] > 0 for c in cases):
    raise tlc.MachineryError('vacuous run: no case with n_pre = 3 (df = 1) or no case with a cooldown period')
  if set(kinds) != set(KINDS) or min(kinds.values()) == 0 or ucs[True] == 0 or ucs[False] == 0:
    raise tlc.MachineryError('vacuous run: presentation kinds %r, cooldown settings %r' % (kinds, ucs))
  if not set(COMBOS) <= combos or not any(level_finding(cb[0], cb[1]) for cb in combos):
    raise tlc.MachineryError('vacuous run: only %d of %d summary argument combinations used' % (len(combos), len(COMBOS)))
  res.assumptions += [
      'scipy.stats.t (cdf, ppf) is trusted',
      'series are small non-negative integers (values <= 3, n_pre 3..5, <= 5 analysed days); geo-level values are '
      'integers in a small range, so float rounding is far below the 1e-9 relative tolerance',
      'test-period treatment totals are a fixed function of the other data except in the shapes marked free '
      '(they enter loc additively only)',
      'the quantile level of `lower` is not prescribed beyond lower <= estimate and a day-independent standardised '
      'distance; tails=1 with level <= 0.5 is the recorded finding class']


def replay(res, blob):
  mods = load_mods()
  v = blob['case']
  c = v['case']
  exp = expected(c)
  res.traces += 1
  res.case_seen('replay')
  if v['kind'] == 'design_side':
    bad = check_design_side(mods, c, exp, v['use_cooldown'])
    if bad:
      res.violate(bad[0], v, bad[1])
    return
  combos = [tuple(x) for x in v['combos']]
  bad, _ = one_frame(mods, c, exp, v['seed'], v['kind'], v['use_cooldown'], combos, v['with_cost'], v['int_dtype'],
                     v.get('matched', False))
  for clause, detail, key, combo in bad:
    res.violate(clause, v, detail, finding_key=key)
