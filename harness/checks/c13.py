"""C13 - see DESIGN.md section 4. Decided by MMTrace.tla on traces recorded by the shared search driver (harness/mm.py)
plus the design-level models (harness/mmdesign.py)."""
from harness import mm
from harness import mmdesign

OWNER = 'C13'


def run(res):
  mmdesign.run_design_level(res, OWNER)
  insts, verdicts, stats = mm.run_search_clauses(res, OWNER, count=None if res.tier == 'thorough' else 520)
  mm.vacuity_guard(res, OWNER, stats)
  # step-level binding of MMImplG (hook events of greedy_search): drift is a note, never a verdict
  mm.run_step_validation(res, insts, OWNER, module='MMStepTraceG')
  mm.describe(res, OWNER)


def replay(res, blob):
  mm.replay_case(res, blob)
