"""C19 - post-analysis data screening removes exactly what it reports.

Design level: spec/Screening.tla models TBRDiagnostics.fit() as a state machine (one action per step,
every branch its own action) with NONDETERMINISTIC detector answers; TLC checks exhaustively, over all
small frames and all detector answers, that the pipeline refines the contract
(Screened = Input minus rows(S) minus rows(D); Analysis = Totals(Screened); caller's frame unchanged),
and that the same invariants are violated by four seeded design errors (sensitivity of the model).

Binding (direction T): a driver builds experiment frames (2-10 geos, 20-60 dates, integer responses,
planted noisy geos / outlier dates / none), runs the real fit() on several presentations of each
(shuffled rows, custom column names, custom group / period labels; date is a column, as in the repo's tests), projects
get_test_results() / get_data() / get_analysis_data() to the vocabulary of the spec and writes JSON.
spec/ScreeningTrace.tla (which INSTANCEs the contract operators of Screening.tla) judges every recorded
execution in TLC and prints one verdict per trace: ok, or the name of the rejecting clause.
"""
import copy
import json
import multiprocessing
import os
from concurrent.futures import ThreadPoolExecutor

from harness import tlc

BAD = -999999999          # projection of a non-integral / infinite / missing number: no total can equal it
NA = -999999998           # projection of "not a number": allowed only for a group without rows on that date
KINDS = ['both', 'noisy', 'outlier', 'clean', 'few', 'both', 'noisy', 'outlier', 'clean', 'both', 'few', 'noisy']

DESIGN_CFG = """SPECIFICATION Spec
CONSTANTS MaxGeos = %d
 MaxDates = %d
 MinGeos = %d
 MinObs = %d
 MaxMissing = %d
 Variant = "%s"
INVARIANT TypeOK
INVARIANT ScreenedExact
INVARIANT AnalysisExact
INVARIANT CallerFrameUnchanged
INVARIANT InInputOrder
INVARIANT AnalysisFresh
INVARIANT FittedNonDegenerate
%s
"""
TRACE_CFG = """SPECIFICATION Spec
POSTCONDITION AllJudged
CHECK_DEADLOCK FALSE
"""
ACTIONS = ['Copy', 'DetectNoisyNone', 'DetectNoisySome', 'RemoveGeos', 'KeepGeos', 'Aggregate1',
           'Aggregate1Raises', 'DetectOutliers', 'DetectOutliersRaises', 'RemoveDates', 'KeepDates',
           'Aggregate2', 'Aggregate2Raises', 'CorrTest', 'CorrTestRaises']
# seeded design errors and the invariant each must break
VARIANTS = {'skip_reaggregate': 'AnalysisExact', 'analysis_only_dates': 'ScreenedExact',
            'all_but_last_geo': 'ScreenedExact', 'inplace': 'CallerFrameUnchanged'}


# ------------------------------------------------------------------------------------------ instances
def gen_instance(seed, idx):
  """The abstract instance number idx of the run with this seed (pure function of both)."""
  import numpy as np
  rs = np.random.RandomState((seed * 7919 + idx * 104729 + 12345) % (2 ** 32))
  kind = KINDS[idx % len(KINDS)]
  few = kind == 'few'
  ngeo = int(rs.randint(2, 4)) if few else int(rs.randint(4, 11))
  nd = int(rs.randint(20, 61))
  if few:
    groups = ['c', 't'] + ([str(rs.choice(['c', 't', 'u']))] if ngeo == 3 else [])
  else:
    groups = ['c', 'c', 't', 't'] + [str(rs.choice(['c', 't'])) for _ in range(ngeo - 4)]
    if ngeo >= 6 and rs.rand() < 0.45:
      for g in rs.choice(np.arange(4, ngeo), int(rs.randint(1, 3)), replace=False):
        groups[int(g)] = 'u'
  groups = [groups[int(j)] for j in rs.permutation(ngeo)]
  npre = int(rs.randint(max(10, nd // 2), int(nd * 0.7) + 1))
  ncool = int(rs.choice([0, 0, 3, 5]))
  ntest = max(nd - npre - ncool, 1)
  periods = ([0] * npre + [1] * ntest + [2] * ncool)[:nd]
  periods += [periods[-1]] * (nd - len(periods))
  trend = 1000 + np.cumsum(rs.normal(0, 60, nd)) + 80 * np.sin(np.arange(nd) * 2 * np.pi / 7)
  scale = rs.uniform(0.5, 2.0, ngeo)
  vals = np.rint(scale[:, None] * trend[None, :] / 4 + rs.normal(0, 6, (ngeo, nd)))
  vals = np.maximum(vals, 0).astype(int)
  planted_noisy, planted_out = [], []
  if kind in ('both', 'noisy'):
    # keep one clean geo per group, so that removing every planted geo leaves both groups present
    keep = {groups.index('c'), groups.index('t')}
    cand = [g for g in range(ngeo) if g not in keep]
    n = 2 if (ngeo >= 6 and rs.rand() < 0.5) else 1
    for g in rs.choice(cand, min(n, len(cand)), replace=False):
      g = int(g)
      planted_noisy.append(g)
      if rs.rand() < 0.5:
        vals[g] = rs.randint(200, 400, nd)       # a series unrelated to the common trend
      else:
        vals[g] = int(rs.randint(100, 500))      # a constant series
  if kind in ('both', 'outlier') or (few and rs.rand() < 0.5):
    tag = 't' if rs.rand() < 0.7 else 'c'
    cand = [g for g in range(ngeo) if groups[g] == tag and g not in planted_noisy]
    for d in rs.choice(nd, int(rs.randint(1, 3)), replace=False):
      d = int(d)
      planted_out.append(d)
      vals[cand[0], d] += int(rs.randint(150, 320))  # a huge spike on one date in one group
  ids_int = sorted(int(x) for x in rs.choice(np.arange(1, 200), ngeo, replace=False))
  # unbalanced panels: a third of the instances lack a few (geo, date) rows; in half of those one whole group has no
  # row on one date (drawn last, so that the instances are otherwise those of the balanced generator)
  missing = []
  if idx % 3 == 1:
    for _ in range(int(rs.randint(1, 5))):
      missing.append([int(rs.randint(0, ngeo)), int(rs.randint(0, nd))])
    if idx % 2 == 1:
      tag = 't' if rs.rand() < 0.6 else 'c'
      d = int(rs.randint(0, nd))
      missing.extend([g, d] for g in range(ngeo) if groups[g] == tag)
  fmt = {'geo': ['int', 'int', 'str'][idx % 3], 'date': ['ts', 'ts', 'str', 'ts', 'pydate'][idx % 5],
         'resp': ['float', 'float', 'float', 'int'][idx % 4]}
  geo_ids = ids_int if fmt['geo'] == 'int' else ['geo_%03d' % x for x in ids_int]
  if fmt['geo'] == 'int' and idx % 5 == 2:
    # 64-bit identifiers (hashed ids): neighbouring integers that are not all representable as doubles
    geo_ids = [2 ** 53 + 1 + k for k in range(ngeo)]    # consecutive: every odd one lies between two doubles
  return {'idx': idx, 'seed': seed, 'kind': kind, 'ngeo': ngeo, 'nd': nd, 'groups': groups,
          'periods': periods, 'vals': vals.tolist(), 'planted_noisy': planted_noisy,
          'planted_out': planted_out, 'geo_ids': geo_ids, 'fmt': fmt, 'missing': missing,
          'base_date': ['2020-02-20', '2019-12-15', '2021-06-28'][idx % 3]}


def presentations(inst):
  """The concrete presentations of an instance; the first one is the reference for the memo clause."""
  idx = inst['idx']
  out = [{'name': 'base', 'shuffle': None, 'custom': False, 'memo': True}]
  out.append({'name': 'shuffled', 'shuffle': 1, 'custom': False, 'memo': True,
              'reset_index': idx % 2 == 0})
  if idx % 3 != 2:
    out.append({'name': 'custom', 'shuffle': 2 if idx % 2 else None, 'custom': True,
                'memo': True, 'labels': idx % 4, 'explicit_target': idx % 2 == 0})
  if idx % 4 == 2:
    # label columns held as pandas Categoricals (what read_csv(dtype='category') or a groupby pipeline leaves behind)
    out.append({'name': 'categorical', 'shuffle': 5 if idx % 8 == 2 else None, 'custom': False, 'memo': True,
                'categorical': True})
  if idx % 4 == 0:
    # a second metric column in the frame, named as key_response, while `target` names the analysed one
    out.append({'name': 'two_metrics', 'shuffle': None, 'custom': False, 'memo': True, 'two_metrics': True})
  if idx % 2 == 1:
    # a frame whose index labels repeat (e.g. the concatenation of per-period frames without ignore_index)
    out.append({'name': 'dup_index', 'shuffle': 3 if idx % 4 == 1 else None, 'custom': False, 'memo': True,
                'dup_index': True})
  return out


LABELS = [  # (kwargs, control, treatment, unassigned, pre, test, cooldown)
    ({'group_control': 100, 'group_treatment': 200, 'period_pre': 10, 'period_test': 11,
      'period_cooldown': 12}, 100, 200, -1, 10, 11, 12),
    ({'group_control': 2, 'group_treatment': 1}, 2, 1, -1, 0, 1, 2),               # swapped defaults
    ({'group_control': 7, 'group_treatment': 3, 'group_unassigned': 0, 'period_pre': 1,
      'period_test': 2, 'period_cooldown': 0}, 7, 3, 0, 1, 2, 0),
    ({'period_pre': 5, 'period_test': 6, 'period_cooldown': 7}, 1, 2, -1, 5, 6, 7),
]


def build(inst, pres):
  """Returns (frame, kwargs, maps) for one presentation; maps translate concrete labels to abstract ones."""
  import numpy as np
  import pandas as pd
  ngeo, nd = inst['ngeo'], inst['nd']
  names = {'geo': 'geo', 'date': 'date', 'group': 'group', 'period': 'period', 'response': 'response',
           'rid': 'rid'}
  kwargs = {}
  glab = {'c': 1, 't': 2, 'u': -1}
  plab = {0: 0, 1: 1, 2: 2}
  if pres['custom']:
    names = {'geo': 'market', 'date': 'day', 'group': 'arm', 'period': 'phase', 'response': 'sales',
             'rid': 'row_id'}
    kw, c, t, u, p0, p1, p2 = LABELS[pres['labels']]
    kwargs.update(kw)
    glab = {'c': c, 't': t, 'u': u}
    plab = {0: p0, 1: p1, 2: p2}
    kwargs.update({'key_geo': 'market', 'key_date': 'day', 'key_group': 'arm', 'key_period': 'phase',
                   'key_response': 'sales'})
    if pres['explicit_target']:
      kwargs['target'] = 'sales'
  base = pd.Timestamp(inst['base_date'])
  stamps = [base + pd.Timedelta(days=d) for d in range(nd)]
  if inst['fmt']['date'] == 'str':
    dates = [s.strftime('%Y-%m-%d') for s in stamps]
  elif inst['fmt']['date'] == 'pydate':
    dates = [s.date() for s in stamps]
  else:
    dates = stamps
  absent = {(g, d) for g, d in inst.get('missing', [])}
  cells = [(g, d) for g in range(ngeo) for d in range(nd) if (g, d) not in absent]
  if pres['shuffle'] is not None:
    rs = np.random.RandomState((inst['seed'] * 31 + inst['idx'] * 17 + pres['shuffle']) % (2 ** 32))
    cells = [cells[int(j)] for j in rs.permutation(len(cells))]
  conv = float if inst['fmt']['resp'] == 'float' else int
  cols = {
      names['date']: [dates[d] for g, d in cells],
      names['geo']: [inst['geo_ids'][g] for g, d in cells],
      names['response']: [conv(inst['vals'][g][d]) for g, d in cells],
      names['group']: [glab[inst['groups'][g]] for g, d in cells],
      names['period']: [plab[inst['periods'][d]] for g, d in cells],
      names['rid']: [g * nd + d + 1 for g, d in cells],
  }
  order = list(cols)
  if pres['custom']:
    order = [order[j] for j in (5, 2, 0, 4, 1, 3)]
  if pres['shuffle'] is not None and not pres.get('reset_index', True):
    frame = pd.DataFrame(cols, columns=order, index=[g * nd + d for g, d in cells])   # labels follow the rows
  else:
    frame = pd.DataFrame(cols, columns=order)
  if pres.get('dup_index'):
    frame.index = [k % max(2, nd // 3) for k in range(len(frame))]
  if pres.get('categorical'):
    frame[names['period']] = frame[names['period']].astype('category')
    frame[names['group']] = frame[names['group']].astype('category')
  if pres.get('two_metrics'):
    frame['revenue'] = [float((k * 37) % 101) for k in range(len(frame))]
    kwargs.update({'target': names['response'], 'key_response': 'revenue'})
  rows = [{'id': g * nd + d + 1, 'geo': g + 1, 'grp': inst['groups'][g], 'date': d + 1,
           'period': inst['periods'][d], 'value': int(inst['vals'][g][d])} for g, d in cells]
  maps = {'names': names,
          'geo': {inst['geo_ids'][g]: g + 1 for g in range(ngeo)},
          'date': {dates[d]: d + 1 for d in range(nd)},
          'grp': {glab['c']: 'c', glab['t']: 't'},
          'period': {plab[p]: p for p in plab}}
  return frame, kwargs, rows, maps


def _key(x):
  """Hashable key of a label coming back from pandas / numpy (np.int64(3) -> 3, Timestamp stays)."""
  try:
    import numpy as np
    if isinstance(x, np.generic):
      return x.item()
  except Exception:  # pylint: disable=broad-except
    pass
  return x


def _int(x):
  try:
    f = float(x)
  except (TypeError, ValueError):
    return BAD
  if f != f:
    return NA
  if f in (float('inf'), float('-inf')) or f != int(f) or abs(f) > 10 ** 9:
    return BAD
  return int(f)


def _date_key(maps, x):
  x = _key(x)
  if x in maps['date']:
    return maps['date'][x]
  try:   # a Timestamp for a datetime.date / string label or the other way round
    import pandas as pd
    for k, v in maps['date'].items():
      if pd.Timestamp(k) == pd.Timestamp(x):
        return v
  except Exception:  # pylint: disable=broad-except
    pass
  return 0


def project(diag, frame, snapshot, rows, maps):
  """Turns what the fitted object reports into the vocabulary of ScreeningTrace.tla."""
  names = maps['names']
  rep = diag.get_test_results()
  noisy = rep['noisy_geos']
  t = {'rows': rows, 'none': noisy is None,
       'noisy': [maps['geo'].get(_key(g), 0) for g in (noisy or [])],
       'outliers': [_date_key(maps, d) for d in (rep['outlier_dates'] or [])],
       'corr_test': bool(rep['corr_test'])}
  # the report belongs to the caller: it empties / extends the returned lists in place before asking for the data
  for key in ('noisy_geos', 'outlier_dates'):
    if isinstance(rep.get(key), list):
      rep[key].clear()
      rep[key].append('edited by the caller')
  out = diag.get_data()
  if names['date'] not in out.columns and names['date'] in out.index.names:
    out = out.reset_index(names['date'])
  need = [names[k] for k in ('rid', 'geo', 'group', 'date', 'period', 'response')]
  missing = [c for c in need if c not in out.columns]
  if missing:
    return None, 'get_data() lacks column(s) %r' % (missing,)
  colv = {c: out[c].tolist() for c in need}
  data = []
  for j in range(len(out)):
    data.append({'id': _int(colv[names['rid']][j]),
                 'geo': maps['geo'].get(_key(colv[names['geo']][j]), 0),
                 'grp': maps['grp'].get(_key(colv[names['group']][j]), 'u'),
                 'date': _date_key(maps, colv[names['date']][j]),
                 'period': maps['period'].get(_key(colv[names['period']][j]), 9),
                 'value': _int(colv[names['response']][j])})
  t['data'] = data
  an = diag.get_analysis_data()
  if names['date'] in getattr(an, 'columns', []):
    labels = an[names['date']].tolist()
  else:
    labels = an.index.get_level_values(names['date']).tolist() if names['date'] in an.index.names \
        else an.index.tolist()
  xs = an['x'].tolist() if 'x' in an.columns else [None] * len(an)
  ys = an['y'].tolist() if 'y' in an.columns else [None] * len(an)
  ps = an[names['period']].tolist() if names['period'] in an.columns else [None] * len(an)
  t['analysis'] = [{'date': _date_key(maps, labels[j]), 'period': maps['period'].get(_key(ps[j]), 9),
                    'x': _int(xs[j]), 'y': _int(ys[j])} for j in range(len(an))]
  same = False
  try:
    same = bool(frame.equals(snapshot) and list(frame.columns) == list(snapshot.columns)
                and frame.index.equals(snapshot.index) and list(frame.index.names) == list(snapshot.index.names)
                and [str(x) for x in frame.dtypes] == [str(x) for x in snapshot.dtypes])
  except Exception:  # pylint: disable=broad-except
    same = False
  t['unchanged'] = same
  return t, None


def run_instance(args):
  """Worker: all presentations of one instance through the real fit(). Returns a list of outcomes."""
  seed, idx = args
  import warnings
  warnings.simplefilter('ignore')
  from matched_markets.methodology import tbrdiagnostics
  inst = gen_instance(seed, idx)
  outs = []
  for pi, pres in enumerate(presentations(inst)):
    frame, kwargs, rows, maps = build(inst, pres)
    snapshot = frame.copy(deep=True)
    o = {'idx': idx, 'pi': pi, 'pres': pres['name'], 'memo': pres['memo'], 'kind': inst['kind'],
         'ngeo': inst['ngeo'], 'nd': inst['nd'], 'fmt': inst['fmt'], 'kwargs': sorted(kwargs)}
    diag = tbrdiagnostics.TBRDiagnostics()
    try:
      diag.fit(frame, **kwargs)
    except Exception as e:  # pylint: disable=broad-except
      o['status'] = 'raised'
      o['exc'] = '%s: %s' % (type(e).__name__, str(e)[:300])
      o['exc_type'] = type(e).__name__
      # a group emptied by the reported noisy geos: _create_analysis_data is documented to raise
      rep = diag.get_test_results().get('noisy_geos') or []
      gone = {maps['geo'].get(_key(g), 0) for g in rep}
      left = {inst['groups'][g] for g in range(inst['ngeo']) if (g + 1) not in gone}
      o['group_emptied'] = isinstance(e, ValueError) and not {'c', 't'} <= left
      outs.append(o)
      continue
    try:
      t, err = project(diag, frame, snapshot, rows, maps)
    except Exception as e:  # pylint: disable=broad-except
      t, err = None, 'projection raised %s: %s' % (type(e).__name__, str(e)[:300])
    if t is None:
      o['status'] = 'unprojectable'
      o['exc'] = err
    else:
      o['status'] = 'ok'
      o['trace'] = t
    outs.append(o)
  return outs


# ------------------------------------------------------------------------------------------ TLC side
def design_runs(res, thorough):
  """Model-checks Screening.tla (as-is: no invariant may fail; seeded variants: the named one must)."""
  asis = [(4, 2, 4, 1, 0), (3, 3, 2, 2, 0)]
  if thorough:
    asis += [(3, 3, 2, 2, 1), (5, 2, 4, 1, 0), (4, 3, 4, 2, 1)]
  jobs = [('asis', c) for c in asis] + [(v, (3, 2, 2, 1, 0)) for v in sorted(VARIANTS)]
  if thorough:
    jobs.append(('live', (3, 2, 2, 2, 1)))
  workers = 4 if not thorough else 8

  def one(job):
    variant, c = job
    cfg = DESIGN_CFG % (c + ('asis' if variant == 'live' else variant,
                             'PROPERTY Terminates' if variant == 'live' else ''))
    d = tlc.run_dir('C19/design_%s_%s' % (variant, '_'.join(map(str, c))), clean=False)
    return tlc.run_tlc('Screening', cfg, d, workers=workers, timeout=3000, coverage=(variant == 'asis'),
                       java_opts=['-Xmx4g'])

  with ThreadPoolExecutor(max_workers=4 if not thorough else 3) as ex:
    results = list(ex.map(one, jobs))
  covered = {}
  for (variant, c), r in zip(jobs, results):
    label = 'Screening[%s %s]' % (variant, ','.join(map(str, c)))
    tlc.require_clean(r, label)
    if variant in ('asis', 'live'):
      if r.violated:
        raise tlc.MachineryError('design-level spec %s violates %s (spec bug, not a code verdict)\n%s'
                                 % (label, r.violated, '\n'.join(r.error_trace[-3:])))
      if r.returncode != 0 or r.distinct == 0:
        raise tlc.MachineryError('design-level run %s did not complete' % label)
      res.add_tlc(r, label)
      for a, (dist, _) in r.coverage.items():
        covered[a] = covered.get(a, 0) + dist
    else:
      want = VARIANTS[variant]
      if r.violated != want:
        raise tlc.MachineryError('seeded design error %r must violate %s, TLC says %r: the model is not '
                                 'sensitive' % (variant, want, r.violated))
      res.extra.setdefault('design_seeded_errors_caught', {})[variant] = r.violated
  never = [a for a in ACTIONS if not covered.get(a)]
  if never:
    raise tlc.MachineryError('vacuous design-level run: action(s) never taken: %s' % never)
  res.extra['design_actions_distinct_states'] = {a: covered[a] for a in ACTIONS}


def judge(batches, label, root='C19', java_mem='-Xmx3g', threads=6):
  """Runs ScreeningTrace.tla on each batch (list of trace dicts). Returns ({tid: verdict}, [TLCResult])."""
  def one(k):
    d = tlc.run_dir('%s/%s_%03d' % (root, label, k), clean=False)
    path = os.path.join(d, 'traces.json')
    with open(path, 'w') as f:
      json.dump({'traces': batches[k]}, f)
    r = tlc.run_tlc('ScreeningTrace', TRACE_CFG, d, workers=1, timeout=3000, env={'TRACE_FILE': path},
                    java_opts=[java_mem])
    return r

  with ThreadPoolExecutor(max_workers=threads) as ex:
    results = list(ex.map(one, range(len(batches))))
  verdicts = {}
  for k, r in enumerate(results):
    if r.returncode != 0:
      tail = '\n'.join(r.stdout.splitlines()[-25:])
      raise tlc.MachineryError('TLC failed on ScreeningTrace batch %s/%d (exit %s):\n%s' % (label, k, r.returncode, tail))
    got = [v for v in r.json_lines() if isinstance(v, dict) and 'verdict' in v]
    if len(got) != len(batches[k]) or {v['tid'] for v in got} != {t['tid'] for t in batches[k]}:
      raise tlc.MachineryError('ScreeningTrace batch %s/%d: %d verdicts for %d traces (verdicts must be total)'
                               % (label, k, len(got), len(batches[k])))
    for v in got:
      verdicts[v['tid']] = v['verdict']
  return verdicts, results


def make_batches(outcomes, per_batch):
  """Groups the ok-traces by instance into batches; sets tid and base (position of the reference)."""
  batches, cur, count = [], [], 0
  by_inst = {}
  for o in outcomes:
    if o['status'] == 'ok':
      by_inst.setdefault(o['idx'], []).append(o)
  tid = 0
  index = {}
  for idx in sorted(by_inst):
    group = by_inst[idx]
    if cur and count + 1 > per_batch:
      batches.append(cur)
      cur, count = [], 0
    count += 1
    ref = None
    for o in group:
      tid += 1
      t = dict(o['trace'])
      t.pop('corr_test', None)
      t['tid'] = tid
      t['inst'] = idx
      pos = len(cur) + 1
      if o['memo'] and ref is None:
        ref = pos
      t['base'] = ref if (o['memo'] and ref is not None) else pos
      cur.append(t)
      index[tid] = o
  if cur:
    batches.append(cur)
  return batches, index


def selftest_traces(batches):
  """Corrupts one recorded field of accepted traces; returns (list of traces, {tid: expected clause})."""
  flat = [t for b in batches for t in b]
  out, expect = [], {}

  def add(t, clause, base_trace=None):
    t = copy.deepcopy(t)
    if base_trace is not None:
      b = copy.deepcopy(base_trace)
      b['tid'] = 900000 + len(out)
      b['base'] = len(out) + 1
      out.append(b)
      expect[b['tid']] = 'ok'
      t['base'] = len(out)
    else:
      t['base'] = len(out) + 1
    t['tid'] = 900000 + len(out)
    out.append(t)
    expect[t['tid']] = clause
    return t

  usable = [t for t in flat if len(t['data']) > 4 and len(t['analysis']) > 2]
  # one execution that removed geos and dates, one that removed only dates, one more of any kind
  src = ([t for t in usable if t['noisy'] and t['outliers']][:1] + [t for t in usable if not t['noisy'] and t['outliers']][:1]
         + usable[:1])
  for t in src:
    c = add(t, 'ok')
    c = add(t, 'ScreenedExact.UnreportedRowRemoved'); del c['data'][len(c['data']) // 2]       # drop a row id
    c = add(t, 'AnalysisExact'); c['analysis'][1]['x'] += 1                                      # a total off by one
    c = add(t, 'AnalysisExact'); c['analysis'][0]['y'] -= 1
    c = add(t, 'AnalysisExact'); del c['analysis'][-1]                                           # a date missing
    c = add(t, 'AnalysisExact'); c['analysis'].append(dict(c['analysis'][0]))                    # a date twice
    c = add(t, 'CallerFrameUnchanged'); c['unchanged'] = False
    c = add(t, 'ScreenedExact.ReportedRowStillPresent'); c['outliers'] = c['outliers'] + [c['data'][0]['date']]
    c = add(t, 'ScreenedExact.RowOrderChanged'); c['data'][0], c['data'][3] = c['data'][3], c['data'][0]
    c = add(t, 'ScreenedExact.RowsAltered'); c['data'][2]['value'] += 1
    c = add(t, 'ScreenedExact.RowsAltered'); c['data'][2]['grp'] = 'u' if c['data'][2]['grp'] != 'u' else 'c'
    c = add(t, 'ScreenedExact.RowsAltered'); c['data'].append(dict(c['data'][0]))                # a row twice
    # the report of a second presentation differs from the reference although each is self-consistent
    c = add(t, 'SameReportAcrossPresentations', base_trace=t); c['outliers'] = c['outliers'] + [9999]
  return out, expect


def describe(o, t=None, seed=None):
  d = {'seed': seed, 'idx': o['idx'], 'presentation': o['pres'], 'pi': o['pi'], 'kind': o['kind'],
       'ngeo': o['ngeo'], 'ndates': o['nd'], 'fmt': o['fmt'], 'kwargs': o['kwargs']}
  if t is not None:
    d.update({'reported_noisy_geo_indices': (None if t['none'] else t['noisy']),
              'reported_outlier_date_ordinals': t['outliers'], 'rows_in': len(t['rows']),
              'rows_out': len(t['data']), 'analysis_rows': len(t['analysis']), 'frame_unchanged': t['unchanged']})
  return d


def hint(t):
  """Python-side detail for a rejected trace (never the verdict)."""
  noisy = set() if t['none'] else set(t['noisy'])
  dates = set(t['outliers'])
  keep = [r['id'] for r in t['rows'] if r['geo'] not in noisy and r['date'] not in dates]
  got = [r['id'] for r in t['data']]
  bad = [a for a in t['analysis'] if BAD in (a['x'], a['y'])]
  return ('expected %d rows, got %d; ids wrongly removed (first 5) %r; ids wrongly present (first 5) %r; '
          'order equal: %s; analysis rows with non-integral / NaN totals: %d'
          % (len(keep), len(got), sorted(set(keep) - set(got))[:5], sorted(set(got) - set(keep))[:5],
             keep == got, len(bad)))


def evaluate(res, outcomes, seed, per_batch, label, run_selftest, root='C19'):
  """Judges all outcomes; records violations. Returns counters."""
  n = {'raised_group_emptied': 0, 'raised': 0, 'unprojectable': 0, 'accepted': 0, 'rejected': 0}
  for o in outcomes:
    if o['status'] == 'raised':
      case = describe(o)
      case['seed'] = seed
      if o.get('group_emptied'):
        n['raised_group_emptied'] += 1    # documented ValueError: nothing was fitted, the property is silent
        continue
      n['raised'] += 1
      if n['raised'] <= 40:
        res.violate('FitCompletes', case, 'fit() raised %s' % o['exc'])
    elif o['status'] == 'unprojectable':
      n['unprojectable'] += 1
      case = describe(o)
      case['seed'] = seed
      res.violate('Projection', case, o['exc'])
  batches, index = make_batches(outcomes, per_batch)
  if not batches:
    return n, batches
  verdicts, results = judge(batches, label, root)
  for r in results:
    res.add_tlc(r, 'ScreeningTrace')
  for tid in sorted(index):
    o = index[tid]
    res.traces += 1
    res.case_seen((o['idx'], o['pi']))
    v = verdicts[tid]
    if v == 'ok':
      n['accepted'] += 1
    else:
      n['rejected'] += 1
      if n['rejected'] <= 60:
        case = describe(o, o['trace'])
        case['seed'] = seed
        res.violate(v, case, hint(o['trace']))
  if run_selftest:
    good = [[t for t in b if verdicts[t['tid']] == 'ok'] for b in batches]
    st, expect = selftest_traces(good)
    if not st:
      if not res.violations:
        raise tlc.MachineryError('no accepted trace to corrupt for the trace-spec self-test')
      res.note('trace-spec self-test skipped: no accepted trace to corrupt (every execution was rejected)')
      return n, batches
    sv, _ = judge([st], 'selftest', root)
    wrong = {tid: (expect[tid], sv[tid]) for tid in expect if expect[tid] is not None and sv[tid] != expect[tid]}
    if wrong:
      raise tlc.MachineryError('trace-spec self-test: corrupted traces judged wrongly (expected, got): %r' % wrong)
    caught = {}
    for tid, e in expect.items():
      if e not in (None, 'ok'):
        caught[e] = caught.get(e, 0) + 1
    res.extra['trace_spec_selftest'] = {'corrupted_traces': sum(caught.values()), 'rejected_with_expected_clause': caught}
  return n, batches


def run(res):
  thorough = res.tier == 'thorough'
  n_inst = 2000 if thorough else 240
  tlc.run_dir('C19')
  ctx = multiprocessing.get_context('fork')
  pool = ctx.Pool(16)       # forked before any thread exists; imports matched_markets in the children
  try:
    pending = pool.map_async(run_instance, [(res.seed, i) for i in range(n_inst)], chunksize=2 if not thorough else 8)
    design_runs(res, thorough)
    nested = pending.get(timeout=3000)
  finally:
    pool.terminate()
  outcomes = [o for group in nested for o in group]
  if not outcomes:
    raise tlc.MachineryError('driver produced no execution')
  n, batches = evaluate(res, outcomes, res.seed, 40 if thorough else 16, 'traces', True)

  # ---- coverage classes of the recorded executions (reference presentation of each instance)
  cls = {'noisy_only': 0, 'outliers_only': 0, 'both': 0, 'neither': 0, 'report_none': 0}
  pres_count, rows_removed_geo, rows_removed_date, multi_out, unassigned_in = {}, 0, 0, 0, 0
  unbalanced, group_absent = 0, 0
  for o in outcomes:
    pres_count[o['pres'] + ':' + o['status']] = pres_count.get(o['pres'] + ':' + o['status'], 0) + 1
    if o['status'] != 'ok' or o['pres'] != 'base':
      continue
    t = o['trace']
    a, b = bool(t['noisy']), bool(t['outliers'])
    cls['both' if a and b else 'noisy_only' if a else 'outliers_only' if b else 'neither'] += 1
    cls['report_none'] += 1 if t['none'] else 0
    multi_out += 1 if len(t['outliers']) > 1 else 0
    unassigned_in += 1 if any(r['grp'] == 'u' for r in t['data']) else 0
    unbalanced += 1 if len(t['rows']) < o['ngeo'] * o['nd'] else 0
    group_absent += 1 if any(a['x'] == NA or a['y'] == NA for a in t['analysis']) else 0
    rows_removed_geo += sum(1 for r in t['rows'] if r['geo'] in set(t['noisy']))
    rows_removed_date += sum(1 for r in t['rows'] if r['date'] in set(t['outliers']))
  res.extra.update({'instances': n_inst, 'fits': len(outcomes), 'report_classes_reference_runs': cls,
                    'presentations': pres_count, 'verdicts': n,
                    'rows_of_reported_geos': rows_removed_geo, 'rows_of_reported_dates': rows_removed_date,
                    'reference_runs_with_several_outlier_dates': multi_out,
                    'reference_runs_with_unassigned_rows_kept': unassigned_in,
                    'reference_runs_on_unbalanced_panels': unbalanced,
                    'reference_runs_with_a_group_absent_on_a_date': group_absent})
  judged_ok = n['accepted'] + n['rejected']
  if not res.violations:
    empty = [k for k, v in cls.items() if v == 0]
    if empty:
      raise tlc.MachineryError('vacuous run: no reference execution in report class(es) %s (%r)' % (empty, cls))
    for p in ('base:ok', 'shuffled:ok', 'custom:ok'):
      if not pres_count.get(p):
        raise tlc.MachineryError('vacuous run: no judged execution of presentation %s (%r)' % (p, pres_count))
    if unbalanced == 0 or group_absent == 0:
      raise tlc.MachineryError('vacuous run: no unbalanced panel / no date without a group (%d, %d)' % (unbalanced, group_absent))
    if rows_removed_geo == 0 or rows_removed_date == 0 or unassigned_in == 0:
      raise tlc.MachineryError('vacuous run: nothing removed / no unassigned rows (%d, %d, %d)'
                               % (rows_removed_geo, rows_removed_date, unassigned_in))
    if judged_ok < 0.8 * len(outcomes):
      raise tlc.MachineryError('too few executions reached the trace spec: %d of %d' % (judged_ok, len(outcomes)))
  res.exhaustive = False
  res.rule = ('design level: all frames of Screening.tla within the stated bounds x all detector answers, exhaustively; '
              'binding: %d seeded random instances (kinds %s; 2-10 geos, 20-60 dates), each run through fit() in 2-3 '
              'presentations; distinct = distinct (instance, presentation) judged by ScreeningTrace.tla; non-trivial = '
              'every judged execution (each decides ScreenedExact, AnalysisExact, CallerFrameUnchanged and the memo clause)'
              % (n_inst, sorted(set(KINDS))))
  for o in outcomes:
    if o['status'] == 'ok' and o['idx'] in (0, 1, 2, 4) and o['pi'] in (0, 2):
      t = o['trace']
      s = describe(o, t, res.seed)
      s.update({'first_rows_in': t['rows'][:2], 'first_rows_out': t['data'][:2], 'first_analysis': t['analysis'][:2],
                'verdict': 'ok' if not any(v.case.get('idx') == o['idx'] and v.case.get('pi') == o['pi']
                                           for v in res.violations) else 'rejected'})
      res.sample(s)
  res.assumptions += [
      'which geos are noisy and which dates are outliers is not specified (numeric); only consistency of report and data',
      'responses are integer-valued so that totals are exact; a non-integral or NaN number in get_data() / '
      'get_analysis_data() is projected to a sentinel that no total equals',
      'row identity is carried by an extra id column of the frame; the frame index is not judged',
      'balanced panels (every geo has every date); no duplicate (geo, date) rows',
      'the date is a column of the frame (as in the tests of the repo); a frame indexed by date, on which fit() cannot '
      'run at all (KeyError), is outside the conditional property',
      'fit() raising the documented ValueError because every geo of one group was reported noisy is outside the '
      'property (nothing is fitted); any other exception on a generated frame is a FitCompletes violation',
      'the order of the records of the analysis table and the order of the reported lists are not judged',
  ]


def replay(res, blob):
  c = blob['case']
  seed, idx = int(c['seed']), int(c['idx'])
  tlc.run_dir('C19_replay')
  outcomes = run_instance((seed, idx))     # all presentations: the reference run is needed for the memo clause
  evaluate(res, outcomes, seed, 1000, 'replay', False, root='C19_replay')
  res.violations = [v for v in res.violations if v.case.get('pi') == c.get('pi')]   # report only the blob's run
