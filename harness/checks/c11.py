"""C11 - count_max_designs equals the size of the enumerated design space.

MMCount.tla: for every class-count vector / size ranges / geo-ratio tolerance TLC checks
  ClosedForm (the transcribed sum) = |Generated| (the generators, operationally) and Generated = Declarative.
(R) a hash-selected residue class of the enumerated instances is realised as an eligibility matrix over a fixed panel;
the real count_max_designs() must equal TLC's number and the real generator listing must consist of exactly that many
distinct pairs, each of them legal and size-admissible.
"""
import numpy as np

from harness import par as par_mod
from harness import tlc

CFG = """SPECIFICATION Spec
CONSTANTS MaxGeos = %d
 EmitMod = %d
 EmitRes = %d
%s
"""
INV = "INVARIANT GeneratedIsDeclarative\nINVARIANT CountIsGenerated\nINVARIANT UpperBound\n"
TRIPLES = [(0, 1, 0), (1, 0, 0), (1, 0, 1), (0, 1, 1), (1, 1, 0), (1, 1, 1)]   # t, c, cx, tx, ct, ctx
NAMES = ['t', 'c', 'cx', 'tx', 'ct', 'ctx']

_PANEL = {}


def panel(n):
  import pandas as pd
  if n not in _PANEL:
    rng = np.random.RandomState(11)
    base = np.cumsum(rng.normal(size=20)) + 50
    rows = []
    for g in range(n):
      s = (g + 1.3) * base + rng.normal(size=20) * (g + 1)
      for d in range(20):
        rows.append({'date': pd.Timestamp('2021-03-01') + pd.Timedelta(days=d), 'geo': 'G%d' % g, 'response': round(float(s[d]), 3)})
    _PANEL[n] = pd.DataFrame(rows)
  return _PANEL[n]


def replay_case(case):
  import pandas as pd
  from matched_markets.methodology import geoeligibility, tbrmmdata, tbrmmdesignparameters, tbrmatchedmarkets
  vec = case['vec']
  n = sum(vec)
  cls = []
  for i, k in enumerate(vec):
    cls += [i] * k
  # shuffle which geo gets which class (the panel order is by size) deterministically
  perm = np.random.RandomState(sum(v * (i + 3) for i, v in enumerate(vec)) + 7 * case['tr'][1] + case['cr'][1]).permutation(n)
  cls_of = {'G%d' % perm[j]: cls[j] for j in range(n)}
  erows = [{'geo': g, 'control': TRIPLES[c][0], 'treatment': TRIPLES[c][1], 'exclude': TRIPLES[c][2]} for g, c in cls_of.items()]
  kw = dict(n_test=3, iroas=1.0)
  if case['tr'][1]:
    kw['treatment_geos_range'] = tuple(case['tr'])
  if case['cr'][1]:
    kw['control_geos_range'] = tuple(case['cr'])
  if case['gtol'][1]:
    kw['geo_ratio_tolerance'] = case['gtol'][0] / case['gtol'][1]
  try:
    par = tbrmmdesignparameters.TBRMMDesignParameters(**kw)
    data = tbrmmdata.TBRMMData(panel(n), 'response', geoeligibility.GeoEligibility(pd.DataFrame(erows)))
    mm = tbrmatchedmarkets.TBRMatchedMarkets(data, par)
    count = mm.count_max_designs()
    sizes = list(mm.treatment_group_size_range())
    listing = []
    for nt in sizes:
      for tg in mm.treatment_group_generator(nt):
        tg = frozenset(tg)
        for cg in mm.control_group_generator(set(tg)):
          listing.append((tg, frozenset(cg)))
    index = list(mm.data.geo_index)
  except Exception as e:  # pylint: disable=broad-except
    return 'CallsAreTotal', '%s: %s' % (type(e).__name__, e)
  if count != case['count']:
    return 'CountEqualsDesignSpace', 'count_max_designs() = %r, the specification counts %r' % (count, case['count'])
  if sizes != case['sizes']:
    return 'TreatmentSizeRange', 'treatment_group_size_range() = %r, specification %r' % (sizes, case['sizes'])
  if len(set(listing)) != len(listing):
    return 'GeneratedPairsDistinct', 'the generators yield %d pairs, %d distinct' % (len(listing), len(set(listing)))
  if len(listing) != case['count']:
    return 'GeneratedEqualsCount', 'generators yield %d pairs, count is %d' % (len(listing), case['count'])
  for tg, cg in listing:
    ok = bool(tg) and bool(cg) and not (tg & cg)
    cl = [cls_of[index[i]] for i in range(len(index))]
    for i in range(len(index)):
      trip = TRIPLES[cl[i]]
      if i in tg:
        ok = ok and trip[1] == 1
      elif i in cg:
        ok = ok and trip[0] == 1
      else:
        ok = ok and trip[2] == 1
    nt, nc = len(tg), len(cg)
    if case['tr'][1]:
      ok = ok and case['tr'][0] <= nt <= case['tr'][1]
    if case['cr'][1]:
      ok = ok and case['cr'][0] <= nc <= case['cr'][1]
    if case['gtol'][1]:
      p, q = case['gtol']
      ok = ok and nc * q <= nt * (p + q) and nt * q <= nc * (p + q)
    if not ok:
      return 'GeneratedPairsAdmissible', 'generated pair %r / %r is not a legal size-admissible assignment' % (sorted(tg), sorted(cg))
  return None


def run(res):
  thorough = res.tier == 'thorough'
  design_n, emit_n, mod = (6, 6, 12) if thorough else (4, 5, 24)
  r = tlc.run_tlc('MMCount', CFG % (design_n, 1, 0, INV), tlc.run_dir('C11_design'), workers=16, timeout=3400)
  tlc.require_clean(r, 'MMCount')
  if r.violated:
    raise tlc.MachineryError('MMCount: the three definitions disagree (%s) - the closed form itself is wrong or the spec is' % r.violated)
  res.add_tlc(r, 'MMCount.design')
  re_ = tlc.run_tlc('MMCount', CFG % (emit_n, mod, res.seed % mod, 'INVARIANT Emit'), tlc.run_dir('C11_emit'), workers=1,
                    timeout=3400)
  tlc.require_clean(re_, 'MMCount(emit)')
  res.add_tlc(re_, 'MMCount.emit')
  cases = re_.json_lines()
  if len(cases) < 50:
    raise tlc.MachineryError('too few emitted cases: %d' % len(cases))
  results = par_mod.pmap(replay_case, cases)
  nonzero = 0
  for case, bad in zip(cases, results):
    res.case_seen((tuple(case['vec']), tuple(case['tr']), tuple(case['cr']), tuple(case['gtol'])))
    res.traces += 1
    nonzero += case['count'] > 0
    if bad and len(res.violations) < 25:
      res.violate(bad[0], {'case': case}, bad[1])
  for case in cases[::max(1, len(cases) // 4)][:4]:
    res.sample({'class_counts': dict(zip(NAMES, case['vec'])), 'treatment_range': case['tr'], 'control_range': case['cr'],
                'geo_ratio_tol': case['gtol'], 'count_demanded': case['count']})
  if nonzero < 10:
    raise tlc.MachineryError('vacuous: only %d replayed cases have a non-empty design space' % nonzero)
  res.extra['replayed_nonempty'] = nonzero
  # last sentence of the property: the count bounds the designs the exhaustive search evaluates. Decided on recorded
  # hook events of real searches by MMStepTrace.tla (clauses EvaluatedWithinCount / CountIsGeneratedPairs).
  from harness import mm
  insts, _, _ = mm.run_search_clauses(res, 'C11', count=(600 if thorough else 90))
  mm.run_step_validation(res, insts, 'C11')
  res.exhaustive = False
  res.rule = ('TLC: all class-count vectors with total <= %d x 6 treatment ranges x 6 control ranges x 5 tolerances, three '
              'definitions compared on each; replay: the residue class (hash %% %d = seed %% %d) of the instances with '
              'total <= %d; distinct = distinct (vector, ranges, tolerance); non-trivial = design space non-empty '
              '(replayed_nonempty)') % (design_n, mod, mod, emit_n)
  res.assumptions += ['the count only depends on the class counts over the admitted geos (the panel is fixed)',
                      'itertools.combinations modelled as all k-subsets']


def replay(res, blob):
  bad = replay_case(blob['case']['case'])
  res.traces += 1
  res.case_seen('replay')
  if bad:
    res.violate(bad[0], blob['case'], bad[1])
