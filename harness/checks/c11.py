"""C11 - count_max_designs equals the size of the enumerated design space.

MMCount.tla: for every class-count vector / size ranges / geo-ratio tolerance TLC checks
  ClosedForm (the transcribed sum) = |Generated| (the generators, operationally) and Generated = Declarative.
(R) a hash-selected residue class of the enumerated instances is realised as an eligibility matrix over a fixed panel;
the real count_max_designs() must equal TLC's number and the real generator listing must consist of exactly that many
distinct pairs, each of them legal and size-admissible.
"""
import dataclasses

import numpy as np

from harness import par as par_mod
from harness import tlc

CFG = """SPECIFICATION Spec
CONSTANTS MaxGeos = %d
 EmitMod = %d
 EmitRes = %d
%s
"""
INV = "INVARIANT GeneratedIsDeclarative\nINVARIANT CountIsGenerated\nINVARIANT UpperBound\n"
TRIPLES = [(0, 1, 0), (1, 0, 0), (1, 0, 1), (0, 1, 1), (1, 1, 0), (1, 1, 1)]   # t, c, cx, tx, ct, ctx
NAMES = ['t', 'c', 'cx', 'tx', 'ct', 'ctx']

_PANEL = {}


def panel(n):
  import pandas as pd
  if n not in _PANEL:
    rng = np.random.RandomState(11)
    base = np.cumsum(rng.normal(size=20)) + 50
    rows = []
    for g in range(n):
      s = (g + 1.3) * base + rng.normal(size=20) * (g + 1)
      for d in range(20):
        rows.append({'date': pd.Timestamp('2021-03-01') + pd.Timedelta(days=d), 'geo': 'G%d' % g, 'response': round(float(s[d]), 3)})
    _PANEL[n] = pd.DataFrame(rows)
  return _PANEL[n]


def replay_case(case):
  import pandas as pd
  from matched_markets.methodology import geoeligibility, tbrmmdata, tbrmmdesignparameters, tbrmatchedmarkets
  vec = case['vec']
  n = sum(vec)
  cls = []
  for i, k in enumerate(vec):
    cls += [i] * k
  # shuffle which geo gets which class (the panel order is by size) deterministically
  perm = np.random.RandomState(sum(v * (i + 3) for i, v in enumerate(vec)) + 7 * case['tr'][1] + case['cr'][1]).permutation(n)
  cls_of = {'G%d' % perm[j]: cls[j] for j in range(n)}
  erows = [{'geo': g, 'control': TRIPLES[c][0], 'treatment': TRIPLES[c][1], 'exclude': TRIPLES[c][2]} for g, c in cls_of.items()]
  kw = dict(n_test=3, iroas=1.0)
  if case['tr'][1]:
    kw['treatment_geos_range'] = tuple(case['tr'])
  if case['cr'][1]:
    kw['control_geos_range'] = tuple(case['cr'])
  if case['gtol'][1]:
    kw['geo_ratio_tolerance'] = case['gtol'][0] / case['gtol'][1]
  try:
    par = tbrmmdesignparameters.TBRMMDesignParameters(**kw)
    data = tbrmmdata.TBRMMData(panel(n), 'response', geoeligibility.GeoEligibility(pd.DataFrame(erows)))
    if (n + case['count'] + case['tr'][1]) % 3 == 0:
      # the searcher counted under OTHER size settings before (parameters is a public attribute, replaced afterwards)
      kw0 = dict(n_test=3, iroas=1.0)
      if case['cr'][1] or case['gtol'][1]:
        if case['tr'][1]:
          kw0['treatment_geos_range'] = tuple(case['tr'])
      else:
        kw0['control_geos_range'] = (1, 1)
      mm = tbrmatchedmarkets.TBRMatchedMarkets(data, tbrmmdesignparameters.TBRMMDesignParameters(**kw0))
      try:
        mm.count_max_designs()
      except ValueError:
        pass
      mm.parameters = par
    else:
      mm = tbrmatchedmarkets.TBRMatchedMarkets(data, par)
    edits = (n + len(erows) + case['count']) % 2 == 0
    if edits:
      # the caller has read the assignments first and edited the sets it was handed (groups yielded by a running
      # generator are NOT edited: a generator may legitimately yield a set it keeps using)
      ga = mm.geo_assignments
      for f in dataclasses.fields(ga):
        v = getattr(ga, f.name)
        if isinstance(v, set):
          v.clear()
    count = mm.count_max_designs()
    sizes = list(mm.treatment_group_size_range())
    listing = []
    for nt in sizes:
      for tg in mm.treatment_group_generator(nt):
        tg = frozenset(tg)
        for cg in mm.control_group_generator(set(tg)):
          listing.append((tg, frozenset(cg)))
    index = list(mm.data.geo_index)
  except Exception as e:  # pylint: disable=broad-except
    return 'CallsAreTotal', '%s: %s' % (type(e).__name__, e)
  if count != case['count']:
    return 'CountEqualsDesignSpace', 'count_max_designs() = %r, the specification counts %r' % (count, case['count'])
  if sizes != case['sizes']:
    return 'TreatmentSizeRange', 'treatment_group_size_range() = %r, specification %r' % (sizes, case['sizes'])
  if len(set(listing)) != len(listing):
    return 'GeneratedPairsDistinct', 'the generators yield %d pairs, %d distinct' % (len(listing), len(set(listing)))
  if len(listing) != case['count']:
    return 'GeneratedEqualsCount', 'generators yield %d pairs, count is %d' % (len(listing), case['count'])
  for tg, cg in listing:
    ok = bool(tg) and bool(cg) and not (tg & cg)
    cl = [cls_of[index[i]] for i in range(len(index))]
    for i in range(len(index)):
      trip = TRIPLES[cl[i]]
      if i in tg:
        ok = ok and trip[1] == 1
      elif i in cg:
        ok = ok and trip[0] == 1
      else:
        ok = ok and trip[2] == 1
    nt, nc = len(tg), len(cg)
    if case['tr'][1]:
      ok = ok and case['tr'][0] <= nt <= case['tr'][1]
    if case['cr'][1]:
      ok = ok and case['cr'][0] <= nc <= case['cr'][1]
    if case['gtol'][1]:
      p, q = case['gtol']
      ok = ok and nc * q <= nt * (p + q) and nt * q <= nc * (p + q)
    if not ok:
      return 'GeneratedPairsAdmissible', 'generated pair %r / %r is not a legal size-admissible assignment' % (sorted(tg), sorted(cg))
  return None


def exact_count(vec, tr, cr, gtol):
  """MMCount!Declarative evaluated with unbounded integers (TLC's are 32-bit): the number of maps geo -> {neither,
  treatment, control} respecting the classes is the coefficient of T^nt C^nc in the product of one factor per geo
  (t: T, c: C, cx: 1+C, tx: 1+T, ct: T+C, ctx: 1+T+C); sum over the admissible (nt, nc)."""
  factors = [[(1, 0)], [(0, 1)], [(0, 0), (0, 1)], [(0, 0), (1, 0)], [(1, 0), (0, 1)], [(0, 0), (1, 0), (0, 1)]]
  poly = {(0, 0): 1}
  for cls, k in enumerate(vec):
    for _ in range(k):
      nxt = {}
      for (a, b), c in poly.items():
        for da, db in factors[cls]:
          key = (a + da, b + db)
          nxt[key] = nxt.get(key, 0) + c
      poly = nxt
  total = 0
  for (nt, nc), c in poly.items():
    if nt < 1 or nc < 1:
      continue
    if tr[1] and not tr[0] <= nt <= tr[1]:
      continue
    if cr[1] and not cr[0] <= nc <= cr[1]:
      continue
    if gtol[1]:
      p, q = gtol
      if not (nc * q <= nt * (p + q) and nt * q <= nc * (p + q)):
        continue
    total += c
  return total


def big_cases(seed, count):
  """Class-count vectors far beyond TLC's integers: up to 48 geos, design spaces beyond 2^53."""
  import random
  rng = random.Random(seed * 97 + 11)
  out = []
  for i in range(count):
    n = rng.choice([24, 30, 36, 40, 44, 48])
    if i % 3 == 0:
      vec = [0, 0, 0, 0, 0, n]
    else:
      cuts = sorted(rng.randint(0, n) for _ in range(5))
      vec = [cuts[0], cuts[1] - cuts[0], cuts[2] - cuts[1], cuts[3] - cuts[2], cuts[4] - cuts[3], n - cuts[4]]
      vec[0], vec[1] = min(vec[0], 3), min(vec[1], 3)
      vec[5] += n - sum(vec)
    tr = rng.choice([(0, 0), (0, 0), (1, n // 2), (5, n)])
    cr = rng.choice([(0, 0), (0, 0), (2, n // 2), (1, n)])
    gtol = rng.choice([(0, 0), (0, 0), (1, 1), (1, 2), (2, 1)])
    out.append({'vec': vec, 'tr': list(tr), 'cr': list(cr), 'gtol': list(gtol)})
  return out


def replay_big(case):
  import pandas as pd
  from matched_markets.methodology import geoeligibility, tbrmmdata, tbrmmdesignparameters, tbrmatchedmarkets
  vec = case['vec']
  n = sum(vec)
  cls = []
  for i, k in enumerate(vec):
    cls += [i] * k
  erows = [{'geo': 'G%d' % g, 'control': TRIPLES[c][0], 'treatment': TRIPLES[c][1], 'exclude': TRIPLES[c][2]}
           for g, c in enumerate(cls)]
  kw = dict(n_test=3, iroas=1.0)
  if case['tr'][1]:
    kw['treatment_geos_range'] = tuple(case['tr'])
  if case['cr'][1]:
    kw['control_geos_range'] = tuple(case['cr'])
  if case['gtol'][1]:
    kw['geo_ratio_tolerance'] = case['gtol'][0] / case['gtol'][1]
  try:
    par = tbrmmdesignparameters.TBRMMDesignParameters(**kw)
    data = tbrmmdata.TBRMMData(panel(n), 'response', geoeligibility.GeoEligibility(pd.DataFrame(erows)))
    count = tbrmatchedmarkets.TBRMatchedMarkets(data, par).count_max_designs()
  except Exception as e:  # pylint: disable=broad-except
    return 'CallsAreTotal', '%s: %s' % (type(e).__name__, e)
  want = exact_count(vec, case['tr'], case['cr'], case['gtol'])
  if count != want or isinstance(count, float):
    return 'CountEqualsDesignSpace', 'count_max_designs() = %r, the declarative count is %d (class counts %r)' % (count, want, vec)
  return None


def run(res):
  thorough = res.tier == 'thorough'
  design_n, emit_n, mod = (6, 6, 12) if thorough else (4, 5, 24)
  r = tlc.run_tlc('MMCount', CFG % (design_n, 1, 0, INV), tlc.run_dir('C11_design'), workers=16, timeout=3400)
  tlc.require_clean(r, 'MMCount')
  if r.violated:
    raise tlc.MachineryError('MMCount: the three definitions disagree (%s) - the closed form itself is wrong or the spec is' % r.violated)
  res.add_tlc(r, 'MMCount.design')
  re_ = tlc.run_tlc('MMCount', CFG % (emit_n, mod, res.seed % mod, 'INVARIANT Emit'), tlc.run_dir('C11_emit'), workers=1,
                    timeout=3400)
  tlc.require_clean(re_, 'MMCount(emit)')
  res.add_tlc(re_, 'MMCount.emit')
  cases = re_.json_lines()
  if len(cases) < 50:
    raise tlc.MachineryError('too few emitted cases: %d' % len(cases))
  # the unbounded-integer evaluator of the declarative count must agree with TLC wherever TLC can count
  for case in cases:
    if exact_count(case['vec'], case['tr'], case['cr'], case['gtol']) != case['declarative']:
      raise tlc.MachineryError('exact_count disagrees with MMCount!Declarative on %r' % case)
  results = par_mod.pmap(replay_case, cases)
  big = big_cases(res.seed, 160 if thorough else 32)
  big_results = par_mod.pmap(replay_big, big, chunksize=1)
  beyond = 0
  for case, bad in zip(big, big_results):
    res.case_seen(('big', tuple(case['vec']), tuple(case['tr']), tuple(case['cr']), tuple(case['gtol'])))
    res.traces += 1
    beyond += exact_count(case['vec'], case['tr'], case['cr'], case['gtol']) > 2 ** 53
    if bad and len(res.violations) < 25:
      res.violate(bad[0], {'big': True, 'case': case}, bad[1])
  res.extra['large_panels_replayed'] = len(big)
  res.extra['large_panels_beyond_2_53'] = beyond
  nonzero = 0
  for case, bad in zip(cases, results):
    res.case_seen((tuple(case['vec']), tuple(case['tr']), tuple(case['cr']), tuple(case['gtol'])))
    res.traces += 1
    nonzero += case['count'] > 0
    if bad and len(res.violations) < 25:
      res.violate(bad[0], {'case': case}, bad[1])
  for case in cases[::max(1, len(cases) // 4)][:4]:
    res.sample({'class_counts': dict(zip(NAMES, case['vec'])), 'treatment_range': case['tr'], 'control_range': case['cr'],
                'geo_ratio_tol': case['gtol'], 'count_demanded': case['count']})
  if nonzero < 10:
    raise tlc.MachineryError('vacuous: only %d replayed cases have a non-empty design space' % nonzero)
  res.extra['replayed_nonempty'] = nonzero
  # last sentence of the property: the count bounds the designs the exhaustive search evaluates. Decided on recorded
  # hook events of real searches by MMStepTrace.tla (clauses EvaluatedWithinCount / CountIsGeneratedPairs).
  from harness import mm
  insts, _, _ = mm.run_search_clauses(res, 'C11', count=(600 if thorough else 90))
  mm.run_step_validation(res, insts, 'C11')
  res.exhaustive = False
  res.rule = ('large panels (24-48 geos, design spaces beyond 2^53) are compared with the declarative count evaluated in unbounded integers, an evaluator that is first checked against TLC on every emitted case; TLC: all class-count vectors with total <= %d x 6 treatment ranges x 6 control ranges x 5 tolerances, three '
              'definitions compared on each; replay: the residue class (hash %% %d = seed %% %d) of the instances with '
              'total <= %d; distinct = distinct (vector, ranges, tolerance); non-trivial = design space non-empty '
              '(replayed_nonempty)') % (design_n, mod, mod, emit_n)
  res.assumptions += ['the count only depends on the class counts over the admitted geos (the panel is fixed)',
                      'itertools.combinations modelled as all k-subsets']


def replay(res, blob):
  if blob['case'].get('kind') == 'steps':
    from harness import mm
    return mm.replay_case(res, blob)
  bad = replay_big(blob['case']['case']) if blob['case'].get('big') else replay_case(blob['case']['case'])
  res.traces += 1
  res.case_seen('replay')
  if bad:
    res.violate(bad[0], blob['case'], bad[1])
