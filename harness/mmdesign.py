"""Design-level (implementation-shaped) models of the two searches: MMImplX.tla / MMImplG.tla."""


def run_design_level(res, owner):
  return None
