"""Design-level (implementation-shaped) models of the two searches: MMImplX.tla / MMImplG.tla.

TLC explores ALL instances over N geos (every eligibility assignment incl. geos absent from the table) crossed with
families of size ranges, tolerances, n_geos_max, budget switches and abstract score tables, and checks that the loops
as implemented refine the contract. The pre-repair variants (Fixes without one switch) are re-run to show that the
models still expose the defects that were repaired in /repo.
"""
from harness import tlc

MCX = """---- MODULE MC_MMImplX ----
EXTENDS MMImplX
mcTRs == %(trs)s
mcCRs == %(crs)s
mcGTols == %(gtols)s
mcTooLarges == %(toolarges)s
====
"""
CFGX = """SPECIFICATION %(spec)s
CONSTANTS N = %(n)d
 Fixes = %(fixes)s
 TRs <- mcTRs
 CRs <- mcCRs
 GTols <- mcGTols
 NMaxs = %(nmaxs)s
 TooLarges <- mcTooLarges
 KCaps = %(kcaps)s
 RankFams = %(rankfams)s
 OptFams = %(optfams)s
 Budgets = %(budgets)s
%(props)s
"""
MCG = """---- MODULE MC_MMImplG ----
EXTENDS MMImplG
mcTRs == %(trs)s
mcCRs == %(crs)s
mcGTols == %(gtols)s
====
"""
CFGG = """SPECIFICATION %(spec)s
CONSTANTS N = %(n)d
 Fixes = %(fixes)s
 RMax = 3
 TRs <- mcTRs
 CRs <- mcCRs
 GTols <- mcGTols
 RankFams = %(rankfams)s
 Budgets = %(budgets)s
%(props)s
"""

X_INV = {
    'C01': ['PushedLegal'], 'C02': ['PushedSizesOK', 'PushedBudgetOK'], 'C03': ['Complete', 'TopK', 'RejectsOnlyUnsatisfiable'],
    'C09': ['NoCrash'], 'C14': ['TopK'], 'C04': [], 'C13': [], 'C10': [],
}
G_INV = {
    'C01': ['ResultLegal'], 'C02': ['ResultWithin', 'ResultBudget'], 'C09': ['NoCrash', 'DomOK'], 'C13': ['ResultInFeasible', 'EmptyWhenInfeasible'],
    'C03': [], 'C14': [], 'C04': [], 'C10': ['ParamsUntouched'],
}
ALL_X_FIXES = '{"D4", "D7", "D13"}'
ALL_G_FIXES = '{"D3", "D5", "D6"}'
# (variant fixes, invariant that must break) per owner: shows the model still sees the repaired defect
X_ASIS = {'C09': ('{"D7", "D13"}', 'NoCrash'), 'C01': ('{"D4", "D13"}', 'PushedLegal')}
G_ASIS = {'C09': ('{"D3", "D6"}', 'NoCrash'), 'C02': ('{"D3", "D5"}', 'ResultBudget'), 'C10': ('{"D5", "D6"}', 'ParamsUntouched')}


def xparams(thorough):
  if thorough:
    return dict(n=3, trs='{<<1, 3>>, <<1, 1>>, <<2, 3>>}', crs='{<<1, 3>>, <<1, 1>>, <<2, 3>>}',
                gtols='{<<0, 0>>, <<1, 1>>, <<1, 2>>}', nmaxs='{0, 2}', toolarges='{{}, {1}}', kcaps='{1, 2}',
                rankfams='{1, 2, 3}', optfams='{1, 2, 3}', budgets='{TRUE, FALSE}')
  return dict(n=3, trs='{<<1, 3>>, <<2, 3>>}', crs='{<<1, 3>>, <<1, 1>>}', gtols='{<<0, 0>>, <<1, 2>>}', nmaxs='{0, 2}',
              toolarges='{{}, {1}}', kcaps='{2}', rankfams='{1, 3}', optfams='{2, 3}', budgets='{TRUE, FALSE}')


def gparams(thorough):
  if thorough:
    return dict(n=3, trs='{<<0, 0>>, <<1, 1>>, <<2, 3>>, <<1, 2>>}', crs='{<<0, 0>>, <<1, 1>>, <<2, 3>>}',
                gtols='{<<0, 0>>, <<1, 1>>, <<1, 2>>}', rankfams='{1, 2, 3, 4}', budgets='{TRUE, FALSE}')
  return dict(n=3, trs='{<<0, 0>>, <<2, 3>>, <<1, 2>>}', crs='{<<0, 0>>, <<1, 1>>}', gtols='{<<0, 0>>, <<1, 1>>}',
              rankfams='{1, 3}', budgets='{TRUE, FALSE}')


def _run(module, mc, cfg, params, fixes, invs, label, liveness=False, timeout=3000, simulate=None, seed=None):
  p = dict(params)
  p['fixes'] = fixes
  p['spec'] = 'SpecStaged' if simulate else 'Spec'
  props = ''.join('INVARIANT %s\n' % i for i in invs)
  if liveness:
    props += 'PROPERTY Terminates\n'
  p['props'] = props
  r = tlc.run_tlc('MC_' + module, cfg % p, tlc.run_dir(label), workers=16, timeout=timeout,
                  extra_texts={'MC_%s.tla' % module: mc % p}, simulate=simulate, depth=(15 if simulate else None), seed=seed)
  tlc.require_clean(r, label)
  return r


def run_design_level(res, owner):
  """Runs the design-level models with the invariants owned by `owner`."""
  thorough = res.tier == 'thorough'
  xi, gi = X_INV.get(owner, []), G_INV.get(owner, [])
  if xi:
    r = _run('MMImplX', MCX, CFGX, xparams(thorough), ALL_X_FIXES, xi, owner + '_implx', liveness=(owner == 'C09'))
    if r.violated:
      raise tlc.MachineryError('MMImplX (current code) violates %s: model and code disagree or a defect is back; see run/%s_implx'
                               % (r.violated, owner))
    res.add_tlc(r, 'MMImplX')
  if gi:
    r = _run('MMImplG', MCG, CFGG, gparams(thorough), ALL_G_FIXES, gi, owner + '_implg', liveness=(owner == 'C09'))
    if r.violated:
      raise tlc.MachineryError('MMImplG (current code) violates %s; see run/%s_implg' % (r.violated, owner))
    res.add_tlc(r, 'MMImplG')
  if thorough:
    # four geos: the instance space (8^4 eligibility assignments x families) is sampled by TLC's simulation mode
    for inv, module, mc, cfg, params, fixes in ((xi, 'MMImplX', MCX, CFGX, dict(xparams(True), n=4), ALL_X_FIXES),
                                                (gi, 'MMImplG', MCG, CFGG, dict(gparams(True), n=4), ALL_G_FIXES)):
      if inv:
        r = _run(module, mc, cfg, params, fixes, inv, owner + '_sim4_' + module.lower(), simulate='num=2500',
                 seed=res.seed % 100000)
        if r.violated:
          raise tlc.MachineryError('%s with four geos (simulation) violates %s' % (module, r.violated))
        res.add_tlc(r, module + '.simulate_N4')
  for table, module, mc, cfg, params in ((X_ASIS, 'MMImplX', MCX, CFGX, xparams(False)), (G_ASIS, 'MMImplG', MCG, CFGG, gparams(False))):
    if owner in table:
      fixes, inv = table[owner]
      r = _run(module, mc, cfg, params, fixes, [inv], owner + '_asis_' + module.lower())
      if r.violated != inv:
        raise tlc.MachineryError('%s with Fixes=%s no longer yields the %s counterexample' % (module, fixes, inv))
      res.extra['pre_repair_variant_%s' % module] = {'fixes': fixes, 'violates': inv, 'trace_length': len(r.error_trace)}
