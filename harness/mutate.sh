#!/bin/sh
# usage: mutate.sh <file-relative-to-repo> <python-expr-old> <python-expr-new> <check-id> [tier]
# Creates a scratch worktree of /repo HEAD, applies a textual replacement, runs the check against it, removes it.
WT=/tmp/wt_mut_$$
git -C /repo worktree add -q --detach $WT HEAD || exit 2
/venv/bin/python - "$WT/$1" "$2" "$3" <<'PY' || { git -C /repo worktree remove --force $WT; exit 2; }
import sys
p, old, new = sys.argv[1:4]
s = open(p).read()
if s.count(old) < 1:
    print('pattern not found'); sys.exit(1)
open(p, 'w').write(s.replace(old, new, 1))
PY
VERIF_REPO=$WT /verif/check "$4" --tier "${5:-quick}" 2>&1 | grep -v conda | grep -E "VIOLATION|OK tier|MACHINERY|KNOWN|clause=|DISAGREEMENT|EXTRAS:" | head -5
git -C /repo worktree remove --force $WT
