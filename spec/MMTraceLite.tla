----------------------------- MODULE MMTraceLite -----------------------------
(***************************************************************************)
(* Trace validation of greedy_search() on panels that are too large for    *)
(* the exhaustive search and for rank tables over all designs (7..14 geos).*)
(* The contract clauses that speak about the RETURNED designs only are     *)
(* judged exactly as in MMTrace.tla (same MMDefs operators):               *)
(*   C01 Legal, C02 the six constraints, C04 series / diagnostics / score  *)
(*   of the reported geos, C09 totality, C14 cap and best-first order.     *)
(* Per returned design the driver logs, from the independent oracle        *)
(* evaluated on that design only: the budget verdict, the dense rank of    *)
(* its score tuple among the returned designs, and whether the attached    *)
(* series / diagnostics / score equal the oracle's for the reported geos.  *)
(***************************************************************************)
EXTENDS MMDefs, SequencesExt, Json, IOUtils, TLCExt

Data == JsonDeserialize(IOEnv.TRACE_FILE)
Insts == Data.instances
NI == Len(Insts)

VARIABLES tid
vars == <<tid>>

DesignOf(x) == <<SeqToSet(x.t), SeqToSet(x.c)>>

Judge(I) ==
  LET X == Ctx(I)
      res == I.greedy
      n == Len(res.designs)
      D(i) == res.designs[i]
      T(i) == SeqToSet(D(i).t)
      C(i) == SeqToSet(D(i).c)
      ok == res.status = "ok"
      wf(i) == T(i) # {} /\ C(i) # {} /\ T(i) \cap C(i) = {} /\ T(i) \cup C(i) \subseteq Geos(I)
      fails ==
        (IF res.status \in {"ok", "valueerror", "timeout"} THEN {} ELSE {"C09:GreedyRaisesOnlyValueError"})
        \cup (IF res.status = "timeout" THEN {"C09:GreedyTerminates"} ELSE {})
        \cup (IF ok /\ \E i \in 1..n : ~Legal(I, T(i), C(i)) THEN {"C01:GreedyLegal"} ELSE {})
        \cup (IF ok /\ \E i \in 1..n : ~TrtSizeOK(I, T(i), C(i)) THEN {"C02:GreedyTreatmentSizeRange"} ELSE {})
        \cup (IF ok /\ \E i \in 1..n : ~CtlSizeOK(I, T(i), C(i)) THEN {"C02:GreedyControlSizeRange"} ELSE {})
        \cup (IF ok /\ \E i \in 1..n : wf(i) /\ ~GeoRatioOK(I, T(i), C(i)) THEN {"C02:GreedyGeoRatio"} ELSE {})
        \cup (IF ok /\ \E i \in 1..n : wf(i) /\ ~VolumeOK(I, T(i), C(i)) THEN {"C02:GreedyVolumeRatio"} ELSE {})
        \cup (IF ok /\ \E i \in 1..n : wf(i) /\ ~ShareLenient(I, X, T(i)) THEN {"C02:GreedyTreatmentShare"} ELSE {})
        \cup (IF ok /\ I.hasBudget /\ \E i \in 1..n : wf(i) /\ ~D(i).budgetOK THEN {"C02:GreedyBudget"} ELSE {})
        \cup (IF ok /\ n > I.k THEN {"C14:GreedyCapped"} ELSE {})
        \cup (IF ok /\ \E i \in 1..(n - 1) : D(i).rk < D(i + 1).rk THEN {"C14:GreedyBestFirst"} ELSE {})
        \cup (IF ok /\ \E i \in 1..n : wf(i) /\ ~D(i).seriesOK THEN {"C04:GreedySeriesOfReportedGeos"} ELSE {})
        \cup (IF ok /\ \E i \in 1..n : wf(i) /\ ~D(i).diagOK THEN {"C04:GreedyDiagnosticsOfReportedGeos"} ELSE {})
        \cup (IF ok /\ \E i \in 1..n : wf(i) /\ ~D(i).scoreOK THEN {"C04:GreedyScoreOfReportedGeos"} ELSE {})
  IN [id |-> I.id, fails |-> SetToSeq(fails),
      facts |-> [admitted |-> Cardinality(X.adm), mustInclude |-> Cardinality(X.must), designs |-> n]]

Init == tid = 1
Next == /\ tid <= NI
        /\ PrintT(ToJson(Judge(Insts[tid])))
        /\ tid' = tid + 1
Spec == Init /\ [][Next]_vars
=============================================================================
