----------------------------- MODULE ScoreOrder -----------------------------
(***************************************************************************)
(* The ordering behind "best first" (C03, C14): tbrmmscore.Scoring is the  *)
(* documented lexicographic tuple                                          *)
(*   <<corr_test, aa_test, bb_test, dw_test, corr (2 decimals),            *)
(*     inv_required_impact>>                                               *)
(* TBRMMScore.__lt__ compares the tuples, TBRMMDesign.__lt__ compares the  *)
(* scores, and TBRMMDesign.__post_init__ accepts a design exactly when     *)
(* both groups are non-empty and disjoint.                                 *)
(* TLC checks that lexicographic order on the tuple domain is a strict     *)
(* total order up to equality of tuples, that "a test passed" dominates    *)
(* everything to its right, and emits every ordered pair / every group     *)
(* pair for replay into the real classes.                                  *)
(***************************************************************************)
EXTENDS Integers, Sequences, FiniteSets, TLC, Json

CONSTANTS CorrVals, InvVals, Geos

Tuples == {0, 1} \X {0, 1} \X {0, 1} \X {0, 1} \X CorrVals \X InvVals

RECURSIVE LexLess(_, _, _)
LexLess(a, b, i) == IF i > 6 THEN FALSE
                    ELSE IF a[i] < b[i] THEN TRUE
                    ELSE IF a[i] > b[i] THEN FALSE
                    ELSE LexLess(a, b, i + 1)
Less(a, b) == LexLess(a, b, 1)

VARIABLES kind, a, b, t, c
vars == <<kind, a, b, t, c>>
Zero == <<0, 0, 0, 0, 0, 0>>
Init == \/ kind = "pair" /\ a \in Tuples /\ b \in Tuples /\ t = {} /\ c = {}
        \/ kind = "groups" /\ a = Zero /\ b = Zero /\ t \in SUBSET Geos /\ c \in SUBSET Geos
Next == UNCHANGED vars
Spec == Init /\ [][Next]_vars

\* ---------------------------------------------------------------- the order
Irreflexive == kind = "pair" => ~Less(a, a)
Trichotomy == kind = "pair" => ((Less(a, b) /\ ~Less(b, a) /\ a # b) \/ (Less(b, a) /\ ~Less(a, b) /\ a # b) \/ (a = b /\ ~Less(a, b)))
\* a design that passes a test which the other fails, with equal entries to the left, is better whatever follows
TestsDominate == kind = "pair" =>
   \A i \in 1..4 : ((\A j \in 1..(i - 1) : a[j] = b[j]) /\ a[i] < b[i]) => Less(a, b)
Transitive == kind = "pair" => \A m \in Tuples : (Less(a, m) /\ Less(m, b)) => Less(a, b)
\* ---------------------------------------------------------------- design validation
DesignAccepted == t # {} /\ c # {} /\ t \cap c = {}

SetToSeq(S) == [j \in 1..Cardinality(S) |-> CHOOSE x \in S : Cardinality({y \in S : y < x}) = j - 1]
Emit == IF kind = "pair"
        THEN PrintT(ToJson([kind |-> kind, a |-> a, b |-> b, less |-> Less(a, b), greater |-> Less(b, a), t |-> <<>>, c |-> <<>>, ok |-> TRUE]))
        ELSE PrintT(ToJson([kind |-> kind, a |-> a, b |-> b, less |-> FALSE, greater |-> FALSE,
                            t |-> SetToSeq(t), c |-> SetToSeq(c), ok |-> DesignAccepted]))
=============================================================================
