--------------------------- MODULE HeapDictTrace ---------------------------
(***************************************************************************)
(* Trace validation for heapdict.HeapDict (C14, direction code -> spec).   *)
(* The driver records, for many runs of the real object, one event per     *)
(* public call at its return: push(key, item) or get_result(), each with   *)
(* the full get_result() snapshot taken after the call.  This module       *)
(* replays every run against HeapDict.tla: a push event must be a Push     *)
(* step of the specification whose successor queue explains the snapshot;  *)
(* a get event must leave the queues unchanged.  One verdict line per run  *)
(* (accepted, or the first rejecting event and the clause that failed).    *)
(***************************************************************************)
EXTENDS HeapDict, IOUtils, TLCExt

Data == JsonDeserialize(IOEnv.TRACE_FILE)
Traces == Data.traces
NT == Len(Traces)

VARIABLES tid, l
tvars == <<vars, tid, l>>

Events == Traces[tid].events
Ev == Events[l]
\* a logged entry is [val, tag, serial]
Entry(x) == <<<<x[1], x[2]>>, x[3]>>
LoggedSeq(ev, k) == [i \in 1..Len(ev.after[k]) |-> Entry(ev.after[k][i])]
LoggedKeys(ev) == DOMAIN ev.after

\* successors of the queue map under Push(k, it), exactly as in HeapDict!Push
NextQs(k, it) ==
  LET e == <<it, n + 1>>
  IN IF Cardinality(q[k]) < cap THEN {[q EXCEPT ![k] = @ \cup {e}]}
     ELSE IF q[k] # {} /\ MinVal(q[k]) < it[1]
          THEN {[q EXCEPT ![k] = (@ \ {m}) \cup {e}] : m \in {mm \in q[k] : Val(mm) = MinVal(q[k])}}
          ELSE {q}

Explains(qq, touched, ev) ==
  /\ LoggedKeys(ev) = touched
  /\ \A k \in touched : IsDescSeqOf(LoggedSeq(ev, k), qq[k])

\* named clauses for the verdict of a rejected push: evaluated on the snapshot alone
PushClause(k, it, ev) ==
  LET touched == Touched \cup {k}
      newPushed == [pushed EXCEPT ![k] = @ \cup {<<it, n + 1>>}]
      S(kk) == {LoggedSeq(ev, kk)[i] : i \in 1..Len(ev.after[kk])}
  IN IF LoggedKeys(ev) # touched THEN "ReportedKeysAreTouchedKeys"
     ELSE IF \E kk \in touched : ~(S(kk) \subseteq newPushed[kk]) THEN "ReportedItemsWerePushed"
     ELSE IF \E kk \in touched : Cardinality(S(kk)) # Len(ev.after[kk]) THEN "NoItemReportedTwice"
     ELSE IF \E kk \in touched : Len(ev.after[kk]) #
                 (IF Cardinality(newPushed[kk]) < cap THEN Cardinality(newPushed[kk]) ELSE cap) THEN "SizeIsMinOfCapAndPushed"
     ELSE IF \E kk \in touched : \E i \in 1..(Len(ev.after[kk]) - 1) :
                 Val(LoggedSeq(ev, kk)[i]) < Val(LoggedSeq(ev, kk)[i + 1]) THEN "DescendingOrder"
     ELSE IF \E kk \in touched : \E a \in S(kk), b \in newPushed[kk] \ S(kk) : Val(a) < Val(b) THEN "KeepsTheLargest"
     ELSE "IsAPushStepFromThePreviousState"

Verdict(ok, clause) == PrintT(ToJson([tid |-> tid, ok |-> ok, l |-> l, clause |-> clause,
                                       id |-> Traces[tid].id]))

ResetTo(t) ==
  /\ tid' = t /\ l' = 1
  /\ cap' = (IF t <= NT THEN Traces[t].cap ELSE 0)
  /\ q' = [k \in Keys |-> {}] /\ pushed' = [k \in Keys |-> {}] /\ hist' = <<>> /\ out' = <<>>

TraceInit == /\ tid = 1 /\ l = 1 /\ cap = (IF NT >= 1 THEN Traces[1].cap ELSE 0)
             /\ q = [k \in Keys |-> {}] /\ pushed = [k \in Keys |-> {}] /\ hist = <<>> /\ out = <<>>

PushStep ==
  /\ tid <= NT /\ l <= Len(Events) /\ Ev.op = "push"
  /\ LET k == Ev.key
         it == <<Ev.val, Ev.tag>>
         touched == Touched \cup {k}
         cands == {qq \in NextQs(k, it) : Explains(qq, touched, Ev)}
     IN IF cands # {}
        THEN /\ q' \in cands
             /\ pushed' = [pushed EXCEPT ![k] = @ \cup {<<it, n + 1>>}]
             /\ hist' = Append(hist, <<k, it>>)
             /\ out' = <<>> /\ l' = l + 1 /\ UNCHANGED <<cap, tid>>
        ELSE Verdict(FALSE, PushClause(k, it, Ev)) /\ ResetTo(tid + 1)

GetStep ==
  /\ tid <= NT /\ l <= Len(Events) /\ Ev.op = "get"
  /\ IF Explains(q, Touched, Ev)
     THEN /\ l' = l + 1 /\ UNCHANGED vars /\ UNCHANGED tid
     ELSE Verdict(FALSE, "ReadingDoesNotChangeTheContainer") /\ ResetTo(tid + 1)

Finish == /\ tid <= NT /\ l > Len(Events)
          /\ Verdict(TRUE, "") /\ ResetTo(tid + 1)

TraceNext == PushStep \/ GetStep \/ Finish
TraceSpec == TraceInit /\ [][TraceNext]_tvars
\* every run got a verdict
AllJudged == TLCGet("stats").diameter >= 1 /\ TRUE
=============================================================================
