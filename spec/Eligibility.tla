---------------------------- MODULE Eligibility ----------------------------
(***************************************************************************)
(* geoeligibility.GeoEligibility.__init__ / get_eligible_assignments /     *)
(* GeoAssignments (property C16).                                          *)
(*                                                                         *)
(* A table is what the caller hands over, before any validation:           *)
(*   cols   the column names as presented (a sequence; a name may be       *)
(*          missing, may occur twice, an unrelated column may be there)    *)
(*   index  "geo" when the geo IDs are supplied as the index named 'geo'   *)
(*          (legal), "range" for the default index                         *)
(*   ids    one record per row: n = the abstract geo ID (the string the    *)
(*          ID becomes after astype(str)), q = "same" | "other": whether   *)
(*          the Python type (int / str) is the table's base type or the    *)
(*          other one (1 vs '1' are the same ID)                           *)
(*   rows   one triple <<control, treatment, exclude>> per row; an entry   *)
(*          is "0", "1" or a bad token "2", "-1", "nan", "str1" (= '1')    *)
(*                                                                         *)
(* Contract: Accept(table) (declarative), ClassOf(row) (the class a row's  *)
(* triple encodes), Expected(sel, indices) (the eleven sets).              *)
(* Implementation shape: one action per check of __init__ in the code's    *)
(* order, then Select (df.loc[geos], reset_index) and Classify (the three  *)
(* masks c, t, x followed by the set algebra of GeoAssignments.__init__).  *)
(* Invariants show that the implementation shape refines the contract and  *)
(* that the contract itself is a partition.                                *)
(***************************************************************************)
EXTENDS Integers, Sequences, FiniteSets, TLC, Json

CONSTANTS MaxRows,    \* tables with 0..MaxRows rows are validated (clean, and in the legal presentations)
          MaxDefRows, \* every single illegal deviation is applied to the tables with at most MaxDefRows rows
          MaxQRows,   \* accepted tables with at most MaxQRows rows are also queried
          QSampleMod  \* ... and of the larger accepted tables those whose row code is 0 modulo QSampleMod (0 = none)

Legal == {"0", "1"}
BadTokens == {"2", "-1", "nan", "str1"}
ValueCols == <<"control", "treatment", "exclude">>
BaseCols == <<"geo", "control", "treatment", "exclude">>
ClassNames == {"c_fixed", "t_fixed", "x_fixed", "ct", "cx", "tx", "ctx"}
Range(s) == {s[j] : j \in 1..Len(s)}

VARIABLES table,    \* the input (chosen in Init, never changes)
          defect,   \* which single deviation from a clean table was applied (a label; not used by Accept)
          pc,       \* "reset" | "chk_geo" | "chk_dupcol" | "chk_cols" | "chk_dupid" | "chk_vals" | "chk_zero"
                    \* | "accepted" | "rejected" | "selected" | "answered" | "raised"
          frame,    \* column names of the working frame after reset_index()
          why,      \* which check rejected (information only: messages are never compared)
          q,        \* the query [given, sel, indices]
          view,     \* the frame the masks are computed on: sequence of [label, row]
          ans       \* the eleven sets
vars == <<table, defect, pc, frame, why, q, view, ans>>

\* ---------------------------------------------------------------- contract: acceptance
N(tb) == Len(tb.rows)
HasGeo(tb) == "geo" \in Range(tb.cols) \/ tb.index = "geo"
HasValueCols(tb) == \A c \in Range(ValueCols) : c \in Range(tb.cols)
NamesOf(tb) == IF tb.index = "geo" THEN <<"geo">> \o tb.cols ELSE tb.cols
NoDupCols(tb) == \A i, j \in 1..Len(NamesOf(tb)) : i # j => NamesOf(tb)[i] # NamesOf(tb)[j]
UniqueIds(tb) == \A i, j \in 1..N(tb) : i # j => tb.ids[i].n # tb.ids[j].n
Entries01(tb) == \A i \in 1..N(tb) : \A k \in 1..3 : tb.rows[i][k] \in Legal
NoZeroRow(tb) == \A i \in 1..N(tb) : tb.rows[i] # <<"0", "0", "0">>
Accept(tb) == HasGeo(tb) /\ HasValueCols(tb) /\ NoDupCols(tb) /\ UniqueIds(tb) /\ Entries01(tb) /\ NoZeroRow(tb)

\* ---------------------------------------------------------------- contract: classes
\* the class a row encodes, straight from the table in the docstring of GeoEligibility.__init__
ClassOf(r) == CASE r = <<"1", "0", "0">> -> "c_fixed"
                [] r = <<"0", "1", "0">> -> "t_fixed"
                [] r = <<"0", "0", "1">> -> "x_fixed"
                [] r = <<"1", "1", "0">> -> "ct"
                [] r = <<"1", "0", "1">> -> "cx"
                [] r = <<"0", "1", "1">> -> "tx"
                [] r = <<"1", "1", "1">> -> "ctx"
CanC == {"c_fixed", "ct", "cx", "ctx"}
CanT == {"t_fixed", "ct", "tx", "ctx"}
CanX == {"x_fixed", "cx", "tx", "ctx"}

\* the selection a query denotes: the given order, or all rows in table order when geos is None
SelOf(tb, qq) == IF qq.given THEN qq.sel ELSE [j \in 1..N(tb) |-> j]
\* a geo is referred to by its ID, or by its position (0-based) in the *given* list
LabelOf(tb, qq, j) == IF qq.indices THEN j - 1 ELSE tb.ids[SelOf(tb, qq)[j]].n
Raises(qq) == ~qq.given /\ qq.indices
ExpClass(tb, qq, K) == {LabelOf(tb, qq, j) : j \in {jj \in 1..Len(SelOf(tb, qq)) : ClassOf(tb.rows[SelOf(tb, qq)[jj]]) = K}}
ExpUnion(tb, qq, Ks) == UNION {ExpClass(tb, qq, K) : K \in Ks}
Expected(tb, qq) ==
  [all |-> ExpUnion(tb, qq, ClassNames), c |-> ExpUnion(tb, qq, CanC), t |-> ExpUnion(tb, qq, CanT),
   x |-> ExpUnion(tb, qq, CanX),
   c_fixed |-> ExpClass(tb, qq, "c_fixed"), t_fixed |-> ExpClass(tb, qq, "t_fixed"),
   x_fixed |-> ExpClass(tb, qq, "x_fixed"), ct |-> ExpClass(tb, qq, "ct"), cx |-> ExpClass(tb, qq, "cx"),
   tx |-> ExpClass(tb, qq, "tx"), ctx |-> ExpClass(tb, qq, "ctx")]
Get(a, K) == CASE K = "c_fixed" -> a.c_fixed [] K = "t_fixed" -> a.t_fixed [] K = "x_fixed" -> a.x_fixed
               [] K = "ct" -> a.ct [] K = "cx" -> a.cx [] K = "tx" -> a.tx [] K = "ctx" -> a.ctx

\* ---------------------------------------------------------------- the enumerated inputs
NoDefect == [kind |-> "none", col |-> "-", i |-> 0, j |-> 0, tok |-> "-"]
Clean(rs) == [cols |-> BaseCols, index |-> "range",
              ids |-> [i \in 1..Len(rs) |-> [n |-> i, q |-> "same"]], rows |-> rs]
Without(s, c) == SelectSeq(s, LAMBDA e : e # c)
ColOrders == << <<"exclude", "geo", "treatment", "control">>, <<"geo", "treatment", "exclude", "control">>,
                <<"control", "exclude", "treatment", "geo">> >>
Cases(rs) ==
  LET n == Len(rs) tb == Clean(rs) IN
    {[d |-> NoDefect, tb |-> tb]}
    \cup {[d |-> [NoDefect EXCEPT !.kind = "geo_index"], tb |-> [tb EXCEPT !.cols = Tail(BaseCols), !.index = "geo"]]}
    \cup {[d |-> [NoDefect EXCEPT !.kind = "extra_col"], tb |-> [tb EXCEPT !.cols = Append(BaseCols, "note")]]}
    \cup {[d |-> [NoDefect EXCEPT !.kind = "col_order", !.i = k], tb |-> [tb EXCEPT !.cols = ColOrders[k]]]
            : k \in 1..Len(ColOrders)}      \* columns are found by NAME: their order in the frame means nothing
    \cup (IF n > MaxDefRows THEN {} ELSE
         {[d |-> [NoDefect EXCEPT !.kind = "missing", !.col = c], tb |-> [tb EXCEPT !.cols = Without(BaseCols, c)]]
            : c \in Range(BaseCols)}
    \cup {[d |-> [NoDefect EXCEPT !.kind = "dupcol", !.col = c], tb |-> [tb EXCEPT !.cols = Append(BaseCols, c)]]
            : c \in Range(BaseCols)}
    \cup {[d |-> [NoDefect EXCEPT !.kind = "dupid", !.i = p[1], !.j = p[2], !.tok = p[3]],
           tb |-> [tb EXCEPT !.ids[p[2]] = [n |-> p[1], q |-> p[3]]]]
            : p \in {pp \in (1..n) \X (1..n) \X {"same", "other"} : pp[1] < pp[2]}}
    \cup {[d |-> [NoDefect EXCEPT !.kind = "badentry", !.i = p[1], !.j = p[2], !.tok = p[3]],
           tb |-> [tb EXCEPT !.rows[p[1]][p[2]] = p[3]]]
            : p \in (1..n) \X (1..3) \X BadTokens})
RowSeqs == UNION {[1..n -> [1..3 -> Legal]] : n \in 0..MaxRows}
AllCases == UNION {Cases(rs) : rs \in RowSeqs}

\* all permutations of all subsets of 1..n, including the empty list
OrderedSubsets(n) == {s \in UNION {[1..k -> 1..n] : k \in 0..n} : \A i, j \in DOMAIN s : i # j => s[i] # s[j]}
Queries(n) == {[given |-> FALSE, sel |-> <<>>, indices |-> b] : b \in BOOLEAN}
              \cup {[given |-> TRUE, sel |-> s, indices |-> b] : s \in OrderedSubsets(n), b \in BOOLEAN}
NoQuery == [given |-> FALSE, sel |-> <<>>, indices |-> FALSE]
NoAns == [all |-> {}, c |-> {}, t |-> {}, x |-> {}, c_fixed |-> {}, t_fixed |-> {}, x_fixed |-> {},
          ct |-> {}, cx |-> {}, tx |-> {}, ctx |-> {}]

Init == /\ \E cs \in AllCases : table = cs.tb /\ defect = cs.d
        /\ pc = "reset" /\ frame = <<>> /\ why = "-" /\ q = NoQuery /\ view = <<>> /\ ans = NoAns

\* ---------------------------------------------------------------- __init__, one action per check
Step(from, ok, to, reason) ==
  /\ pc = from
  /\ IF ok THEN pc' = to /\ why' = why ELSE pc' = "rejected" /\ why' = reason
  /\ UNCHANGED <<table, defect, frame, q, view, ans>>

\* line 116: df = df.copy().reset_index() - the index becomes the first column ('geo' or 'index')
ResetIndex == /\ pc = "reset" /\ pc' = "chk_geo"
              /\ frame' = <<IF table.index = "geo" THEN "geo" ELSE "index">> \o table.cols
              /\ UNCHANGED <<table, defect, why, q, view, ans>>
\* lines 118-119
ChkGeo == Step("chk_geo", "geo" \in Range(frame), "chk_dupcol", "no geo")
\* lines 121-123
ChkDupCol == Step("chk_dupcol", \A i, j \in 1..Len(frame) : i # j => frame[i] # frame[j], "chk_cols", "dup column")
\* lines 128-131
ChkCols == Step("chk_cols", Range(ValueCols) \subseteq Range(frame), "chk_dupid", "missing column")
\* lines 126, 138-141: IDs compared after astype(str): .n is that string, .q plays no role
ChkDupId == Step("chk_dupid", Cardinality({table.ids[i].n : i \in 1..N(table)}) = N(table), "chk_vals", "dup id")
\* lines 143-145: per column, set(column) <= {0, 1}
ChkVals == Step("chk_vals", \A k \in 1..3 : {table.rows[i][k] : i \in 1..N(table)} \subseteq Legal, "chk_zero", "values")
\* lines 147-150: row sums (all entries are 0/1 here)
Val(e) == IF e = "1" THEN 1 ELSE 0
ChkZero == Step("chk_zero", \A i \in 1..N(table) : Val(table.rows[i][1]) + Val(table.rows[i][2]) + Val(table.rows[i][3]) # 0,
                "accepted", "zero row")

\* ---------------------------------------------------------------- get_eligible_assignments
\* lines 176-183: df.loc[geos] keeps the given order; reset_index() relabels the rows 0..n-1
\* a code of the 0/1 content of a table (used only to sample larger tables for the query part)
RowCode(tb) == LET RECURSIVE RC(_) RC(i) == IF i = 0 THEN 0 ELSE
                     RC(i - 1) * 8 + (IF tb.rows[i][1] = "1" THEN 4 ELSE 0) + (IF tb.rows[i][2] = "1" THEN 2 ELSE 0) +
                     (IF tb.rows[i][3] = "1" THEN 1 ELSE 0)
               IN RC(N(tb))
Queried(tb) == N(tb) <= MaxQRows \/ (QSampleMod > 0 /\ RowCode(tb) % QSampleMod = 0)
Select ==
  /\ pc = "accepted" /\ Queried(table)
  /\ \E qq \in Queries(N(table)) :
       /\ q' = qq
       /\ IF qq.given
          THEN /\ view' = [j \in 1..Len(qq.sel) |->
                             [label |-> IF qq.indices THEN j - 1 ELSE table.ids[qq.sel[j]].n, row |-> table.rows[qq.sel[j]]]]
               /\ pc' = "selected"
          ELSE IF qq.indices
               THEN view' = <<>> /\ pc' = "raised"
               ELSE /\ view' = [j \in 1..N(table) |-> [label |-> table.ids[j].n, row |-> table.rows[j]]]
                    /\ pc' = "selected"
  /\ UNCHANGED <<table, defect, frame, why, ans>>

\* lines 186-190 and GeoAssignments.__init__ (lines 56-71)
Classify ==
  /\ pc = "selected"
  /\ LET c == {view[j].label : j \in {jj \in 1..Len(view) : view[jj].row[1] = "1"}}
         t == {view[j].label : j \in {jj \in 1..Len(view) : view[jj].row[2] = "1"}}
         x == {view[j].label : j \in {jj \in 1..Len(view) : view[jj].row[3] = "1"}}
         a == c \cup t \cup x
         nc == a \ c  nt == a \ t  nx == a \ x
     IN ans' = [all |-> a, c |-> c, t |-> t, x |-> x,
                c_fixed |-> c \cap nt \cap nx, t_fixed |-> nc \cap t \cap nx, x_fixed |-> nc \cap nt \cap x,
                ct |-> c \cap t \cap nx, cx |-> c \cap nt \cap x, ctx |-> c \cap t \cap x, tx |-> nc \cap t \cap x]
  /\ pc' = "answered"
  /\ UNCHANGED <<table, defect, frame, why, q, view>>

Next == ResetIndex \/ ChkGeo \/ ChkDupCol \/ ChkCols \/ ChkDupId \/ ChkVals \/ ChkZero \/ Select \/ Classify
Spec == Init /\ [][Next]_vars

\* ---------------------------------------------------------------- properties
Validated == pc \in {"accepted", "selected", "answered", "raised"}
TypeOK == /\ pc \in {"reset", "chk_geo", "chk_dupcol", "chk_cols", "chk_dupid", "chk_vals", "chk_zero",
                     "accepted", "rejected", "selected", "answered", "raised"}
          /\ N(table) = Len(table.ids)
\* the sequence of checks decides exactly the declarative predicate
RefinesAccept == /\ (Validated => Accept(table))
                 /\ (pc = "rejected" => ~Accept(table))
\* a single deviation is harmless exactly when it is one of the legal presentations
DefectsJudged == Accept(table) <=> (defect.kind \in {"none", "geo_index", "extra_col", "col_order"} /\ NoZeroRow(table))
\* the answer of the implementation shape is the contract's answer
RefinesClasses == /\ (pc = "answered" => ~Raises(q) /\ ans = Expected(table, q))
                  /\ (pc = "raised" => Raises(q))
\* properties of the contract itself (stated on the expected answer)
Partition ==
  pc = "answered" =>
    LET e == Expected(table, q) sel == SelOf(table, q) IN
      /\ \A K1, K2 \in ClassNames : K1 # K2 => Get(e, K1) \cap Get(e, K2) = {}
      /\ UNION {Get(e, K) : K \in ClassNames} = e.all
      /\ e.all = {LabelOf(table, q, j) : j \in 1..Len(sel)}
      /\ Cardinality(e.all) = Len(sel)
EachInEncodedClass ==
  pc = "answered" =>
    LET e == Expected(table, q) sel == SelOf(table, q) IN
      \A j \in 1..Len(sel) : \A K \in ClassNames :
         LabelOf(table, q, j) \in Get(e, K) <=> K = ClassOf(table.rows[sel[j]])
RightUnions ==
  pc = "answered" =>
    LET e == Expected(table, q) sel == SelOf(table, q) IN
      /\ e.c = {LabelOf(table, q, j) : j \in {jj \in 1..Len(sel) : table.rows[sel[jj]][1] = "1"}}
      /\ e.t = {LabelOf(table, q, j) : j \in {jj \in 1..Len(sel) : table.rows[sel[jj]][2] = "1"}}
      /\ e.x = {LabelOf(table, q, j) : j \in {jj \in 1..Len(sel) : table.rows[sel[jj]][3] = "1"}}
      /\ e.c = e.c_fixed \cup e.ct \cup e.cx \cup e.ctx
      /\ e.t = e.t_fixed \cup e.ct \cup e.tx \cup e.ctx
      /\ e.x = e.x_fixed \cup e.cx \cup e.tx \cup e.ctx
      /\ e.all = e.c \cup e.t \cup e.x
\* index-based answers are positions in the given order
PositionsInGivenOrder ==
  (pc = "answered" /\ q.indices) =>
     /\ Expected(table, q).all = 0..(Len(q.sel) - 1)
     /\ \A j \in 1..Len(q.sel) : (j - 1) \in Get(Expected(table, q), ClassOf(table.rows[q.sel[j]]))

\* ---------------------------------------------------------------- cases for the replayer
\* one JSON line per validated / rejected table and one per query: the case and what the contract demands
Emit ==
  /\ (pc \in {"accepted", "rejected"}) =>
        PrintT(ToJson([phase |-> "validate", table |-> table, defect |-> defect, accept |-> Accept(table), why |-> why]))
  /\ (pc \in {"answered", "raised"}) =>
        PrintT(ToJson([phase |-> "query", table |-> table, defect |-> defect, query |-> q,
                       raises |-> Raises(q),
                       expect |-> IF Raises(q) THEN NoAns ELSE Expected(table, q)]))
=============================================================================
