----------------------------- MODULE DiagReuse -----------------------------
(***************************************************************************)
(* C04, design level: why the diagnostics attached to a stored design      *)
(* belong to its reported geos.                                            *)
(*                                                                         *)
(* exhaustive_search() builds ONE diagnostics object per treatment group   *)
(* and re-points its control series for every control group                *)
(* (tbrmatchedmarkets.py: diag = TBRMMDiagnostics(y, par); diag.x = ...).  *)
(* A stored design must therefore hold its own copy.  The model has a heap *)
(* of diagnostics objects (object id -> <<treatment group, control group>>)*)
(* and stored designs <<T, C, object id>>:                                 *)
(*   NewTreatment(T)   a fresh object for treatment group T, no control    *)
(*   SetControl(C)     the live object is re-pointed (mutated in place)    *)
(*   Store             the design <<T, C>> is pushed with                  *)
(*                       a deep copy of the live object     ("copy" \in Fixes, the code)  *)
(*                       or the live object itself          (the aliasing mistake)        *)
(* Invariant: every stored design's object describes exactly its <<T, C>>.  *)
(***************************************************************************)
EXTENDS Integers, FiniteSets, TLC

CONSTANTS Groups,      \* abstract names of geo groups
          MaxObjs, Fixes

None == "none"
VARIABLES heap,        \* object id -> <<T, C>> (C may be None)
          live,        \* id of the object the loop currently mutates (0 = none)
          stored       \* set of <<T, C, object id>>
vars == <<heap, live, stored>>

Init == heap = <<>> /\ live = 0 /\ stored = {}

NextId == Cardinality(DOMAIN heap) + 1
Alloc(T, C) == [i \in DOMAIN heap \cup {NextId} |-> IF i = NextId THEN <<T, C>> ELSE heap[i]]

NewTreatment(T) == /\ NextId <= MaxObjs
                   /\ heap' = Alloc(T, None) /\ live' = NextId
                   /\ UNCHANGED stored
SetControl(C) == /\ live # 0 /\ C # heap[live][1]
                 /\ heap' = [heap EXCEPT ![live] = <<@[1], C>>]
                 /\ UNCHANGED <<live, stored>>
Store == /\ live # 0 /\ heap[live][2] # None
         /\ IF "copy" \in Fixes
            THEN /\ NextId <= MaxObjs
                 /\ heap' = Alloc(heap[live][1], heap[live][2])
                 /\ stored' = stored \cup {<<heap[live][1], heap[live][2], NextId>>}
            ELSE /\ heap' = heap
                 /\ stored' = stored \cup {<<heap[live][1], heap[live][2], live>>}
         /\ UNCHANGED live
Next == (\E T \in Groups : NewTreatment(T)) \/ (\E C \in Groups : SetControl(C)) \/ Store
Spec == Init /\ [][Next]_vars

\* C04: the diagnostics of a stored design are those of its own groups, whatever the loop did afterwards
DiagBelongsToDesign == \A d \in stored : heap[d[3]] = <<d[1], d[2]>>
=============================================================================
