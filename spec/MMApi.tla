-------------------------------- MODULE MMApi --------------------------------
(***************************************************************************)
(* C10: the public API of one TBRMatchedMarkets object has no hidden       *)
(* state.  The object is modelled by the only state a caller may observe:  *)
(*   last    which search ran last ("none" / "exh" / "greedy"): what       *)
(*           search_results() refers to                                    *)
(* plus the two mechanisms that broke history independence before the      *)
(* repairs (each switched by Fixes so the old design can still be shown to *)
(* fail):                                                                  *)
(*   mapped  D2: search_results() rewrote the stored designs from indices  *)
(*           to IDs in place; a second retrieval crashed (fix 2823404)     *)
(*   dirty   D3: greedy_search() wrote default size ranges into the        *)
(*           caller's parameter object (fix ec1db9f)                       *)
(*   cfg     the values the caller's parameter object currently holds in   *)
(*           the fields that are read at call time (result cap, size       *)
(*           ranges, tolerances): "A" at construction; the caller may      *)
(*           assign the other set of values ("B") and back at any time     *)
(*           (Reconfigure is the caller's step, not a call on the object)  *)
(*   cached  "R" (never in the code; seeded regressions C02_i / C03_i):    *)
(*           bounds derived from those fields are computed at first use    *)
(*           and kept, so later answers follow the configuration of the    *)
(*           first use.  "R" \in Fixes = no such cache.                     *)
(* Every call is one action; its logged answer is either "fresh_<cfg>"     *)
(* (what the same call answers as the first call on an object freshly      *)
(* built with configuration cfg), the result list of the last search (run  *)
(* under the configuration of that time), an error, or - in the            *)
(* unrepaired designs - a crash / an answer computed from altered or stale *)
(* parameters.  hist is the behaviour handed to the replayer.              *)
(***************************************************************************)
EXTENDS Integers, Sequences, FiniteSets, TLC, Json

CONSTANTS Fixes, MaxLen

Queries == {"geos_over_budget", "geos_too_large", "geos_must_include", "geos_within_constraints",
            "geo_assignments", "treatment_group_size_range", "count_max_designs",
            "treatment_groups", "control_groups",
            \* a listing the caller abandons after its first element (next(generator))
            "treatment_groups_first", "control_groups_first"}
\* queries whose answer depends on the size ranges stored in the parameter object
RangeDependent == {"treatment_group_size_range", "count_max_designs", "treatment_groups", "control_groups",
                   "treatment_groups_first", "control_groups_first"}
Searches == {"exh", "greedy"}

Cfgs == {"A", "B"}
Other(c) == IF c = "A" THEN "B" ELSE "A"

VARIABLES last, mapped, dirty, cfg, cached, ans, hist
vars == <<last, mapped, dirty, cfg, cached, ans, hist>>

Init == /\ last = "none" /\ mapped = FALSE /\ dirty = FALSE /\ cfg = "A" /\ cached = "none"
        /\ ans = <<"none", "none">> /\ hist = <<>>

Log(call, answer) == hist' = Append(hist, [call |-> call, answer |-> answer]) /\ ans' = <<call, answer>>

\* the configuration a range-dependent computation actually uses
Used == IF "R" \in Fixes \/ cached = "none" THEN cfg ELSE cached
Touch == cached' = (IF "R" \in Fixes THEN "none" ELSE IF cached = "none" THEN cfg ELSE cached)

Query(q) ==
  /\ IF q \in RangeDependent
     THEN /\ Log(q, IF dirty THEN "altered" ELSE IF Used = cfg THEN "fresh_" \o cfg ELSE "stale")
          /\ Touch
     ELSE Log(q, "fresh_" \o cfg) /\ UNCHANGED cached
  /\ UNCHANGED <<last, mapped, dirty, cfg>>

\* a search stores fresh (unmapped) designs and returns them through the retrieval path
Search(s) ==
  /\ last' = s \o "_" \o cfg
  /\ dirty' = (dirty \/ (s = "greedy" /\ "D3" \notin Fixes))
  /\ mapped' = ("D2" \notin Fixes)          \* the search itself ends with one retrieval
  /\ Log(s, IF dirty THEN "altered" ELSE IF Used = cfg THEN "fresh_" \o cfg ELSE "stale")
  /\ Touch
  /\ UNCHANGED cfg

Retrieve ==
  /\ IF last = "none" THEN Log("search_results", "error")
     ELSE IF mapped THEN Log("search_results", "crash")
     ELSE Log("search_results", "last_" \o last)
  /\ mapped' = (mapped \/ (last # "none" /\ "D2" \notin Fixes))
  /\ UNCHANGED <<last, dirty, cfg, cached>>

\* the caller assigns the other values to the call-time fields of its parameter object
Reconfigure ==
  /\ cfg' = Other(cfg)
  /\ Log("reconfigure", "none")
  /\ UNCHANGED <<last, mapped, dirty, cached>>

Next == /\ Len(hist) < MaxLen
        /\ \/ \E q \in Queries : Query(q)
           \/ \E s \in Searches : Search(s)
           \/ Retrieve
           \/ Reconfigure
Spec == Init /\ [][Next]_vars

\* ---------------------------------------------------------------- C10
\* every answer is the fresh one (or the last search's list, or the error a fresh object gives too).
\* Stated on `ans` (the last call and answer), which is part of the VIEW, so that the exhaustive run with the
\* history hidden still evaluates it in every reachable abstract state.
Memo == ans[2] \in {"none", "error"} \cup {"fresh_" \o c : c \in Cfgs}
                  \cup {"last_" \o s \o "_" \o c : s \in Searches, c \in Cfgs}
\* a query or search answers for the configuration in force when it is made
AnswersCurrentConfiguration == (ans[1] \in Queries \cup Searches) => ans[2] = "fresh_" \o cfg
ErrorOnlyWithoutSearch == (ans[2] = "error") => (ans[1] = "search_results" /\ last = "none")
RetrievalAfterSearchSucceeds == (ans[1] = "search_results" /\ last # "none") => ans[2] = "last_" \o last
ParamsUntouched == ~dirty
View == <<last, mapped, dirty, cfg, cached, ans>>
Emit == (Len(hist) = MaxLen) => PrintT(ToJson(hist))
=============================================================================
