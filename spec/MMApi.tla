-------------------------------- MODULE MMApi --------------------------------
(***************************************************************************)
(* C10: the public API of one TBRMatchedMarkets object has no hidden       *)
(* state.  The object is modelled by the only state a caller may observe:  *)
(*   last    which search ran last ("none" / "exh" / "greedy"): what       *)
(*           search_results() refers to                                    *)
(* plus the two mechanisms that broke history independence before the      *)
(* repairs (each switched by Fixes so the old design can still be shown to *)
(* fail):                                                                  *)
(*   mapped  D2: search_results() rewrote the stored designs from indices  *)
(*           to IDs in place; a second retrieval crashed (fix 2823404)     *)
(*   dirty   D3: greedy_search() wrote default size ranges into the        *)
(*           caller's parameter object (fix ec1db9f)                       *)
(* Every call is one action; its logged answer is either "fresh" (what the *)
(* same call answers as the first call on a freshly built object), the     *)
(* result list of the last search, an error, or - in the unrepaired        *)
(* design - a crash / an answer computed from altered parameters.          *)
(* hist is the behaviour handed to the replayer.                           *)
(***************************************************************************)
EXTENDS Integers, Sequences, FiniteSets, TLC, Json

CONSTANTS Fixes, MaxLen

Queries == {"geos_over_budget", "geos_too_large", "geos_must_include", "geos_within_constraints",
            "geo_assignments", "treatment_group_size_range", "count_max_designs",
            "treatment_groups", "control_groups",
            \* a listing the caller abandons after its first element (next(generator))
            "treatment_groups_first", "control_groups_first"}
\* queries whose answer depends on the size ranges stored in the parameter object
RangeDependent == {"treatment_group_size_range", "count_max_designs", "treatment_groups", "control_groups",
                   "treatment_groups_first", "control_groups_first"}
Searches == {"exh", "greedy"}

VARIABLES last, mapped, dirty, ans, hist
vars == <<last, mapped, dirty, ans, hist>>

Init == last = "none" /\ mapped = FALSE /\ dirty = FALSE /\ ans = <<"none", "none">> /\ hist = <<>>

Log(call, answer) == hist' = Append(hist, [call |-> call, answer |-> answer]) /\ ans' = <<call, answer>>

Query(q) ==
  /\ Log(q, IF dirty /\ q \in RangeDependent THEN "altered" ELSE "fresh")
  /\ UNCHANGED <<last, mapped, dirty>>

\* a search stores fresh (unmapped) designs and returns them through the retrieval path
Search(s) ==
  /\ last' = s
  /\ dirty' = (dirty \/ (s = "greedy" /\ "D3" \notin Fixes))
  /\ mapped' = ("D2" \notin Fixes)          \* the search itself ends with one retrieval
  /\ Log(s, IF dirty THEN "altered" ELSE "fresh")

Retrieve ==
  /\ IF last = "none" THEN Log("search_results", "error")
     ELSE IF mapped THEN Log("search_results", "crash")
     ELSE Log("search_results", "last_" \o last)
  /\ mapped' = (mapped \/ (last # "none" /\ "D2" \notin Fixes))
  /\ UNCHANGED <<last, dirty>>

Next == /\ Len(hist) < MaxLen
        /\ \/ \E q \in Queries : Query(q)
           \/ \E s \in Searches : Search(s)
           \/ Retrieve
Spec == Init /\ [][Next]_vars

\* ---------------------------------------------------------------- C10
\* every answer is the fresh one (or the last search's list, or the error a fresh object gives too).
\* Stated on `ans` (the last call and answer), which is part of the VIEW, so that the exhaustive run with the
\* history hidden still evaluates it in every reachable abstract state.
Memo == ans[2] \in {"none", "fresh", "error", "last_exh", "last_greedy"}
ErrorOnlyWithoutSearch == (ans[2] = "error") => (ans[1] = "search_results" /\ last = "none")
RetrievalAfterSearchSucceeds == (ans[1] = "search_results" /\ last # "none") => ans[2] = "last_" \o last
ParamsUntouched == ~dirty
View == <<last, mapped, dirty, ans>>
Emit == (Len(hist) = MaxLen) => PrintT(ToJson(hist))
=============================================================================
