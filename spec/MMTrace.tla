------------------------------- MODULE MMTrace -------------------------------
(***************************************************************************)
(* Batch trace validation of TBRMatchedMarkets.exhaustive_search() and     *)
(* greedy_search() against the contract (direction code -> spec).          *)
(*                                                                         *)
(* The driver records, per instance, the return value (or exception class) *)
(* of each search run on a fresh object, projected to the contract's       *)
(* vocabulary (geo numbers, design codes).  One contract action per public *)
(* call: ExhaustiveSearch -> result, GreedySearch -> result.  The action's *)
(* guard is the conjunction of the named clauses below; each clause is     *)
(* owned by one listed property (prefix).  One verdict line per instance:  *)
(* the set of clauses the recorded results do NOT satisfy.                 *)
(***************************************************************************)
EXTENDS MMDefs, SequencesExt, Json, IOUtils, TLCExt

Data == JsonDeserialize(IOEnv.TRACE_FILE)
Insts == Data.instances
NI == Len(Insts)

VARIABLES tid
vars == <<tid>>

DesignOf(x) == <<SeqToSet(x.t), SeqToSet(x.c)>>
ListOf(res) == [i \in 1..Len(res.designs) |-> DesignOf(res.designs[i])]
SetOf(R) == {R[i] : i \in 1..Len(R)}
\* a reported pair whose code (hence rank) is defined
Coded(I, d) == d[1] # {} /\ d[2] # {} /\ d[1] \cap d[2] = {} /\ d[1] \cup d[2] \subseteq Geos(I)
MinRank(I, R) == Min({Rank(I, R[i]) : i \in 1..Len(R)})
MaxRank(I, R) == Max({Rank(I, R[i]) : i \in 1..Len(R)})

\* ---------------------------------------------------------------- clauses common to both searches
Common(I, X, res, who) ==
  LET R == ListOf(res)
      ok == res.status = "ok"
      allCoded == \A i \in 1..Len(R) : Coded(I, R[i])
  IN (IF res.status \in {"ok", "valueerror", "timeout"} THEN {} ELSE {"C09:" \o who \o "RaisesOnlyValueError"})
     \cup (IF res.status = "timeout" THEN {"C09:" \o who \o "Terminates"} ELSE {})
     \cup (IF ok /\ \E i \in 1..Len(R) : ~Legal(I, R[i][1], R[i][2]) THEN {"C01:" \o who \o "Legal"} ELSE {})
     \cup (IF ok /\ \E i \in 1..Len(R) : ~TrtSizeOK(I, R[i][1], R[i][2]) THEN {"C02:" \o who \o "TreatmentSizeRange"} ELSE {})
     \cup (IF ok /\ \E i \in 1..Len(R) : ~CtlSizeOK(I, R[i][1], R[i][2]) THEN {"C02:" \o who \o "ControlSizeRange"} ELSE {})
     \cup (IF ok /\ \E i \in 1..Len(R) : R[i][1] # {} /\ R[i][2] # {} /\ ~GeoRatioOK(I, R[i][1], R[i][2])
           THEN {"C02:" \o who \o "GeoRatio"} ELSE {})
     \cup (IF ok /\ \E i \in 1..Len(R) : Coded(I, R[i]) /\ ~VolumeOK(I, R[i][1], R[i][2]) THEN {"C02:" \o who \o "VolumeRatio"} ELSE {})
     \cup (IF ok /\ \E i \in 1..Len(R) : Coded(I, R[i]) /\ ~ShareLenient(I, X, R[i][1]) THEN {"C02:" \o who \o "TreatmentShare"} ELSE {})
     \cup (IF ok /\ \E i \in 1..Len(R) : Coded(I, R[i]) /\ ~BudgetOK(I, R[i][1], R[i][2]) THEN {"C02:" \o who \o "Budget"} ELSE {})
     \cup (IF ok /\ Len(R) > I.k THEN {"C14:" \o who \o "Capped"} ELSE {})
     \cup (IF ok /\ allCoded /\ \E i \in 1..(Len(R) - 1) : Rank(I, R[i]) < Rank(I, R[i + 1])
           THEN {"C14:" \o who \o "BestFirst"} ELSE {})
     \* C04: the series / diagnostics / score attached at position i are those of the reported geos
     \cup (IF ok /\ \E i \in 1..Len(R) : Coded(I, R[i]) /\
               ~(Mask(R[i][1]) \in SeqToSet(res.designs[i].yMasks) /\ Mask(R[i][2]) \in SeqToSet(res.designs[i].xMasks))
           THEN {"C04:" \o who \o "SeriesOfReportedGeos"} ELSE {})
     \cup (IF ok /\ \E i \in 1..Len(R) : Coded(I, R[i]) /\ Code(R[i][1], R[i][2]) \notin SeqToSet(res.designs[i].diagCodes)
           THEN {"C04:" \o who \o "DiagnosticsOfReportedGeos"} ELSE {})
     \cup (IF ok /\ \E i \in 1..Len(R) : Coded(I, R[i]) /\ Code(R[i][1], R[i][2]) \notin SeqToSet(res.designs[i].scoreCodes)
           THEN {"C04:" \o who \o "ScoreOfReportedGeos"} ELSE {})

\* ---------------------------------------------------------------- ExhaustiveSearch -> result   (C03)
Exhaustive(I, X, LA) ==
  LET res == I.exh
      R == ListOf(res)
      RS == SetOf(R)
      ok == res.status = "ok"
      allCoded == \A i \in 1..Len(R) : Coded(I, R[i])
      Obl == Obligations(I, X, LA)
  IN Common(I, X, res, "Exhaustive")
     \cup (IF ok /\ Cardinality(RS) # Len(R) THEN {"C03:ExhaustiveDistinct"} ELSE {})
     \cup (IF ok /\ Len(R) < Min2(I.k, Cardinality(Obl)) THEN {"C03:ExhaustiveReturnsMinKFeasible"} ELSE {})
     \cup (IF ok /\ allCoded /\ Len(R) > 0 /\ \E d \in Obl \ RS : Rank(I, d) > MinRank(I, R)
           THEN {"C03:ExhaustiveNothingBetterOmitted"} ELSE {})
     \cup (IF res.status = "valueerror" /\ Obl # {} /\ ~MayReject(I) THEN {"C03:ExhaustiveRejectsOnlyUnsatisfiable"} ELSE {})

\* ---------------------------------------------------------------- GreedySearch -> result   (C13)
Greedy(I, X, LA) ==
  LET res == I.greedy
      R == ListOf(res)
      ok == res.status = "ok"
      allCoded == \A i \in 1..Len(R) : Coded(I, R[i])
      applies == ~I.hasBudget /\ ~HasShare(I)
      FA == FeasibleAdmitted(I, X, LA)
      XR == ListOf(I.exh)
  IN Common(I, X, res, "Greedy")
     \cup (IF ok /\ applies /\ \E i \in 1..Len(R) : R[i] \notin FA THEN {"C13:GreedyWithinRankedFeasibleSet"} ELSE {})
     \cup (IF ok /\ applies /\ FA = {} /\ Len(R) > 0 THEN {"C13:GreedyEmptyWhenNothingFeasible"} ELSE {})
     \cup (IF ok /\ applies /\ I.exh.status = "ok" /\ Len(XR) = 0 /\ Len(R) > 0 THEN {"C13:GreedyEmptyWhenExhaustiveEmpty"} ELSE {})
     \cup (IF ok /\ applies /\ allCoded /\ Len(R) > 0 /\ FA # {} /\ MaxRank(I, R) > Max({Rank(I, d) : d \in FA})
           THEN {"C13:GreedyNotAboveOptimum"} ELSE {})
     \cup (IF ok /\ applies /\ allCoded /\ Len(R) > 0 /\ I.exh.status = "ok" /\ Len(XR) > 0 /\ Coded(I, XR[1])
              /\ MaxRank(I, R) > Rank(I, XR[1])
           THEN {"C13:GreedyNotAboveExhaustiveBest"} ELSE {})

\* ---------------------------------------------------------------- the constraint-set queries (drift notes)
\* The public queries of a fresh object, recorded next to the searches, must be the sets the contract computes its
\* obligations from (MMDefs!Admitted and friends). A mismatch is reported as QUERY:* = drift between model and code;
\* it is not a clause of a listed property.
Queries(I, X) ==
  LET q == I.queries
  IN IF ~q.recorded THEN {} ELSE
     (IF SeqToSet(q.overBudget) # OverBudget(I) THEN {"QUERY:GeosOverBudget"} ELSE {})
     \cup (IF SeqToSet(q.tooLarge) # TooLarge(I) THEN {"QUERY:GeosTooLarge"} ELSE {})
     \cup (IF SeqToSet(q.mustInclude) # MustInclude(I) THEN {"QUERY:GeosMustInclude"} ELSE {})
     \cup (IF ~MayReject(I) /\ q.admittedOk /\ SeqToSet(q.admitted) # X.adm THEN {"QUERY:GeosWithinConstraints"} ELSE {})
     \cup (IF MayReject(I) /\ q.admittedOk THEN {"QUERY:TruncationRejectsTooManyMustInclude"} ELSE {})
     \cup (IF ~MayReject(I) /\ q.sizesOk /\ SeqToSet(q.sizes) # X.sizes THEN {"QUERY:TreatmentSizeRange"} ELSE {})

Judge(I) ==
  LET X == Ctx(I)
      LA == LegalAdmitted(I, X)
  IN [id |-> I.id,
      fails |-> SetToSeq(Exhaustive(I, X, LA) \cup Greedy(I, X, LA) \cup Queries(I, X)),
      \* facts about the instance that the driver uses for its vacuity guards
      facts |-> [obl |-> Cardinality(Obligations(I, X, LA)), feas |-> Cardinality(FeasibleAdmitted(I, X, LA)),
                 admitted |-> Cardinality(X.adm), mustInclude |-> Cardinality(X.must),
                 tooLarge |-> Cardinality(TooLarge(I)), mayReject |-> MayReject(I)]]

Init == tid = 1
Next == /\ tid <= NI
        /\ PrintT(ToJson(Judge(Insts[tid])))
        /\ tid' = tid + 1
Spec == Init /\ [][Next]_vars
=============================================================================
