------------------------------ MODULE TBRModel ------------------------------
(***************************************************************************)
(* Time Based Regression posterior of the cumulative causal effect         *)
(* (properties C06 and C18).                                               *)
(*                                                                         *)
(*   tbr.TBR.fit / causal_cumulative_distribution / summary                *)
(*   tbrmmdiagnostics.TBRMMDiagnostics.tbrfit            (design side)     *)
(*   tbr_iroas.TBRiROAS.estimate_pointwise_and_cumulative_effect           *)
(*                                                                         *)
(* A case is a pair of per-date GROUP TOTALS  x (control), y (treatment),   *)
(* small non-negative integers, with a shape (n_pre, n_test, n_cool):       *)
(* the first n_pre dates are the pre-period, then the test period, then    *)
(* the cooldown period.  Nothing else enters the contract, so the number   *)
(* of geos per group, the order of rows and geos / dates that are not      *)
(* assigned to a group / period are irrelevant BY CONSTRUCTION; the        *)
(* Aggregate action re-checks that on a few concrete layouts.              *)
(*                                                                         *)
(* Exact arithmetic.  With n = n_pre and sums over the pre-period          *)
(*   S = Sum x, Q = Sum x^2, Sy = Sum y, Qy = Sum y^2, Sxy = Sum x y       *)
(*   K  = n Q - S^2        (= n S_xx > 0 demanded)                         *)
(*   P  = n Sxy - S Sy     b = P / K                                       *)
(*   A  = Sy K - P S       a = A / (n K)                                   *)
(*   Ky = n Qy - Sy^2      D = Ky K - P^2   RSS = D / (n K)  (> 0 demanded)*)
(*   sigma^2 = D / ((n-2) n K)           df = n - 2                        *)
(* every quantity of a date i is a rational over the denominator n K:      *)
(*   y_i - a - b x_i = ResNum(i) / (n K)                                   *)
(* and for the k-th analysed day (k = 1 .. n_test (+ n_cool))              *)
(*   loc_k = LocNum(k) / (n K)                                             *)
(*   var_k = sigma^2 (k + k^2/n + (Sum_{i<=k}(x_i - xbar))^2 / S_xx)       *)
(*         = D V(k) / ((n-2) n^2 K^2),   V(k) = k n K + k^2 K + E(k)^2,    *)
(*           E(k) = Sum_{i<=k} (n x_i - S)            (Kerman 2017, eq 5). *)
(* Products that could exceed 2^31 are never formed: var_k is printed as   *)
(* the factor lists <<D, V(k)>> / <<n-2, n, n, K, K>> and multiplied by    *)
(* the replayer with fractions.Fraction.                                   *)
(***************************************************************************)
EXTENDS Integers, Sequences, FiniteSets, TLC, Json

CONSTANTS MaxV,        \* series values are 0..MaxV
          MaxYT,       \* treatment values in the test / cooldown period are 0..MaxYT
          Shapes,      \* set of shape codes 100 n_pre + 10 n_test + n_cool
          SampleMod,   \* a case is emitted when Hash % SampleMod = SampleRes ...
          SampleRes,
          NMMod,       \* ... or it has a non-monotone scale and Hash % NMMod = SampleRes % NMMod
          EmitOnly     \* TRUE: only sampled cases are initial states (the emitting run)

VARIABLES shape, x, y,       \* the case (chosen in Init, never changes)
          pc,                \* "aggregate" | "fit" | "days" | "done" | "end"
          tlab, tx, ty,      \* analysis_data: per-date labels and group totals (all dates of the frame)
          uc,                \* use_cooldown
          fit,               \* sufficient statistics of the pre-period OLS fit
          t, cumx, cumy,     \* day loop: days done, cumulative control / treatment totals
          locs, vs,          \* per analysed day: numerator of loc over n K; V_impl with var = D V_impl/((n-2) n K^2)
          dfit               \* design-side tbrfit result: [est |-> rational, sf |-> rational scale^2/sigma^2]
vars == <<shape, x, y, pc, tlab, tx, ty, uc, fit, t, cumx, cumy, locs, vs, dfit>>

\* ---------------------------------------------------------------- rationals <<num, den>>, den > 0
Abs(i) == IF i < 0 THEN -i ELSE i
RECURSIVE GCD(_, _)
GCD(a, b) == IF b = 0 THEN a ELSE GCD(b, a % b)
RatNorm(r) == LET g == GCD(Abs(r[1]), r[2]) IN <<r[1] \div g, r[2] \div g>>      \* den > 0 so g > 0
Rat(a, b) == RatNorm(IF b < 0 THEN <<-a, -b>> ELSE <<a, b>>)
RatAdd(p, q) == Rat(p[1] * q[2] + q[1] * p[2], p[2] * q[2])
RatSub(p, q) == Rat(p[1] * q[2] - q[1] * p[2], p[2] * q[2])
RatMul(p, q) == Rat(p[1] * q[1], p[2] * q[2])
RatDiv(p, q) == Rat(p[1] * q[2], p[2] * q[1])                                      \* q # 0
RatEq(p, q) == p[1] * q[2] = q[1] * p[2]
RatLe(p, q) == p[1] * q[2] <= q[1] * p[2]

\* ---------------------------------------------------------------- sums
RECURSIVE SumF(_, _, _)          \* Sum_{i = lo..hi} f[i]
SumF(f, lo, hi) == IF hi < lo THEN 0 ELSE f[hi] + SumF(f, lo, hi - 1)
Sum(s) == SumF(s, 1, Len(s))
Prod2(s, u) == [i \in 1..Len(s) |-> s[i] * u[i]]
RECURSIVE HashSeq(_, _)
HashSeq(s, h) == IF s = <<>> THEN h ELSE HashSeq(Tail(s), (h * 31 + Head(s) + 1) % 65521)

\* ---------------------------------------------------------------- the declarative contract (closed form)
N  == shape \div 100             \* a shape is the code 100 n_pre + 10 n_test + n_cool (a cfg cannot hold tuples in a set)
NT == (shape % 100) \div 10
NC == shape % 10
L  == N + NT + NC
BaseLab == [i \in 1..L |-> IF i <= N THEN "pre" ELSE IF i <= N + NT THEN "test" ELSE "cool"]

cS   == SumF(x, 1, N)
cQ   == SumF(Prod2(x, x), 1, N)
cSy  == SumF(y, 1, N)
cQy  == SumF(Prod2(y, y), 1, N)
cSxy == SumF(Prod2(x, y), 1, N)
cK   == N * cQ - cS * cS
cP   == N * cSxy - cS * cSy
cKy  == N * cQy - cSy * cSy
cD   == cKy * cK - cP * cP
cA   == cSy * cK - cP * cS
NK   == N * cK
DF   == N - 2

ResNum(i) == NK * y[i] - cA - N * cP * x[i]             \* (y_i - a - b x_i) n K, any date i
Cx(k) == SumF(x, N + 1, N + k)
Cy(k) == SumF(y, N + 1, N + k)
LocNum(k) == NK * Cy(k) - k * cA - N * cP * Cx(k)        \* loc_k n K: cumulative observed minus counterfactual
E(k) == N * Cx(k) - k * cS                               \* n Sum_{i<=k} (x_i - xbar)
V(k) == IF k = 0 THEN 0 ELSE k * N * cK + k * k * cK + E(k) * E(k)
\* var_k = cD V(k) / ((n-2) n^2 K^2)

AnalysedDays(c) == IF c THEN NT + NC ELSE NT

\* C18.  The cumulative q-quantile of day k is loc_k + q s_k, s_k = sqrt(var_k); the pointwise bounds are
\* first differences (prepend 0):  lower_k = est_k + qlo (s_k - s_{k-1}),  upper_k = est_k + qup (s_k - s_{k-1})
\* with est_k = loc_k - loc_{k-1}, qlo < 0 < qup.  Hence lower_k <= est_k <= upper_k  <=>  s_k >= s_{k-1}
\* <=> var_k >= var_{k-1} <=> V(k) >= V(k-1): decided exactly, no square root needed.
PointwiseOrdered(k) == V(k) >= V(k - 1)
Monotone == \A k \in 1..(NT + NC) : PointwiseOrdered(k)
StrictlyMonotone == \A k \in 1..(NT + NC) : V(k) > V(k - 1)
MonoSign(k) == IF V(k) > V(k - 1) THEN 1 ELSE IF V(k) = V(k - 1) THEN 0 ELSE -1

Hash == HashSeq(x \o y, 7 + 100 * N + 10 * NT + NC)
Sampled == \/ Hash % SampleMod = SampleRes
           \/ (~Monotone /\ Hash % NMMod = SampleRes % NMMod)

\* ---------------------------------------------------------------- layouts (presentation of one case as a geo-level frame)
\* A layout is [lab : labels per date, geos : sequence of [grp, v]]; grp 1 = control, 2 = treatment, -1 = unassigned.
\* Rows are a function of (geo, date): row order does not exist in the model.
Control == 1
Treatment == 2
Unassigned == 0 - 1
LayoutKinds == 1..4
Ins(s, v) == <<v>> \o SubSeq(s, 1, N) \o <<v>> \o SubSeq(s, N + 1, L) \o <<v, v>>   \* extra dates: before, between, after
Layout(k) ==
  CASE k = 1 -> [lab |-> BaseLab, geos |-> <<[grp |-> Control, v |-> x], [grp |-> Treatment, v |-> y]>>]
    [] k = 2 -> [lab |-> BaseLab,                                 \* two control geos, three treatment geos
                 geos |-> <<[grp |-> Treatment, v |-> [i \in 1..L |-> y[i] - i]],
                            [grp |-> Control, v |-> [i \in 1..L |-> x[i] + 2]],
                            [grp |-> Treatment, v |-> [i \in 1..L |-> i - 1]],
                            [grp |-> Control, v |-> [i \in 1..L |-> 0 - 2]],
                            [grp |-> Treatment, v |-> [i \in 1..L |-> 1]]>>]
    [] k = 3 -> [lab |-> BaseLab,                                 \* plus geos of the unassigned group
                 geos |-> <<[grp |-> Unassigned, v |-> [i \in 1..L |-> 5 + i]], [grp |-> Control, v |-> x],
                            [grp |-> Treatment, v |-> y], [grp |-> Unassigned, v |-> y]>>]
    [] k = 4 -> [lab |-> Ins(BaseLab, "none"),                    \* plus dates of the unassigned period
                 geos |-> <<[grp |-> Control, v |-> Ins(x, 9)], [grp |-> Treatment, v |-> Ins(y, 7)],
                            [grp |-> Unassigned, v |-> Ins(x, 1)]>>]
GroupTotals(lay, g) ==
  [d \in 1..Len(lay.lab) |-> Sum([j \in 1..Len(lay.geos) |-> IF lay.geos[j].grp = g THEN lay.geos[j].v[d] ELSE 0])]

RECURSIVE SelF(_, _, _, _)       \* the entries of s at the dates whose label is in P, in date order
SelF(s, lab, P, k) == IF k = 0 THEN <<>>
                      ELSE IF lab[k] \in P THEN Append(SelF(s, lab, P, k - 1), s[k]) ELSE SelF(s, lab, P, k - 1)
Sel(s, lab, P) == SelF(s, lab, P, Len(s))
Periods(c) == IF c THEN {"test", "cool"} ELSE {"test"}

\* ---------------------------------------------------------------- implementation-shaped pipeline
Init ==
  /\ shape \in Shapes
  /\ x \in [1..L -> 0..MaxV]
  /\ cK > 0
  /\ \E yp \in [1..N -> 0..MaxV], yt \in [1..(NT + NC) -> 0..MaxYT] : y = yp \o yt
  /\ cD > 0
  /\ (EmitOnly => Sampled)
  /\ pc = "aggregate" /\ tlab = <<>> /\ tx = <<>> /\ ty = <<>> /\ uc = TRUE
  /\ fit = [n |-> 0, S |-> 0, Q |-> 0, Sy |-> 0, Qy |-> 0, Sxy |-> 0]
  /\ t = 0 /\ cumx = 0 /\ cumy = 0 /\ locs = <<>> /\ vs = <<>>
  /\ dfit = [est |-> <<0, 1>>, sf |-> <<0, 1>>]

\* TBR._construct_analysis_data: data.groupby([group, date]).agg({target: 'sum', period: 'max'}).
\* Any layout may be presented; the successor state holds totals per (group, date) only.
Aggregate ==
  /\ pc = "aggregate"
  /\ \E k \in LayoutKinds :
       LET lay == Layout(k)
       IN /\ tlab' = lay.lab
          /\ tx' = GroupTotals(lay, Control)
          /\ ty' = GroupTotals(lay, Treatment)
  /\ pc' = "fit"
  /\ UNCHANGED <<shape, x, y, uc, fit, t, cumx, cumy, locs, vs, dfit>>

\* TBR._fit_pre_period_model: sm.OLS(treatment[pre], [1, control[pre]]).fit() - only the normal-equation sums
\* enter.  use_cooldown is a constructor argument: chosen here.
Fit ==
  /\ pc = "fit"
  /\ LET px == Sel(tx, tlab, {"pre"})
         py == Sel(ty, tlab, {"pre"})
     IN fit' = [n |-> Len(px), S |-> Sum(px), Q |-> Sum(Prod2(px, px)),
                Sy |-> Sum(py), Qy |-> Sum(Prod2(py, py)), Sxy |-> Sum(Prod2(px, py))]
  /\ uc' \in BOOLEAN
  /\ pc' = "days"
  /\ UNCHANGED <<shape, x, y, tlab, tx, ty, t, cumx, cumy, locs, vs, dfit>>

fK == fit.n * fit.Q - fit.S * fit.S
fP == fit.n * fit.Sxy - fit.S * fit.Sy
fA == fit.Sy * fK - fP * fit.S
fD == (fit.n * fit.Qy - fit.Sy * fit.Sy) * fK - fP * fP

\* causal_cumulative_distribution, one step of the loop `for t in np.arange(len_test)` together with the
\* cumsum of the causal effect:
\*   delta_mean[t] = delta_mean[t-1] + (y_t - a - b x_t)
\*   cntrl_cum_mat[t] = (1, cumx/t);  vsigma = sigma^2 (X'X)^-1 = sigma^2/K [[Q, -S], [-S, n]]
\*   var_from_params[t] = t^2 (1, m) vsigma (1, m)' = sigma^2 (Q t^2 - 2 S t cumx + n cumx^2) / K
\*   var_from_observations[t] = t sigma^2
\* so delta_var[t] = sigma^2 (t K + W) / K = D (t K + W) / ((n-2) n K^2); vs holds t K + W.
Day ==
  /\ pc = "days"
  /\ LET ax == Sel(tx, tlab, Periods(uc))
         ay == Sel(ty, tlab, Periods(uc))
     IN IF t = Len(ax)
        THEN pc' = "done" /\ UNCHANGED <<t, cumx, cumy, locs, vs>>
        ELSE LET k  == t + 1
                 cx == cumx + ax[k]
                 cy == cumy + ay[k]
                 eff == fit.n * fK * ay[k] - fA - fit.n * fP * ax[k]
                 prev == IF t = 0 THEN 0 ELSE locs[t]
                 W  == fit.Q * k * k - 2 * fit.S * k * cx + fit.n * cx * cx
             IN /\ t' = k /\ cumx' = cx /\ cumy' = cy
                /\ locs' = Append(locs, prev + eff)
                /\ vs' = Append(vs, k * fK + W)
                /\ UNCHANGED pc
  /\ UNCHANGED <<shape, x, y, tlab, tx, ty, uc, fit, dfit>>

\* TBRMMDiagnostics(y_pre, par).x = x_pre; tbrfit(xt, yt) with par.n_test = t analysed days and
\* xt, yt the means over the analysed days; written with the code's own intermediate quantities:
\*   dx = xt - mean(x); dy = yt - mean(y); estimate = n_test (dy - b dx)
\*   dv = dx^2 / np.var(x, ddof=0); scale = n_test sigma sqrt((1 + dv)/n + 1/n_test)
DesignFit ==
  /\ pc = "done"
  /\ LET nt == t
         n  == fit.n
         dx == RatSub(Rat(cumx, nt), Rat(fit.S, n))
         dy == RatSub(Rat(cumy, nt), Rat(fit.Sy, n))
         b  == Rat(fP, fK)
         var0 == Rat(fK, n * n)                                 \* Sum (x - xbar)^2 / n = K / n^2
         dv == RatDiv(RatMul(dx, dx), var0)
         inner == RatAdd(RatDiv(RatAdd(<<1, 1>>, dv), <<n, 1>>), Rat(1, nt))
     IN dfit' = [est |-> RatMul(<<nt, 1>>, RatSub(dy, RatMul(b, dx))),
                 sf  |-> RatMul(<<nt * nt, 1>>, inner)]           \* scale^2 / sigma^2
  /\ pc' = "end"
  /\ UNCHANGED <<shape, x, y, tlab, tx, ty, uc, fit, t, cumx, cumy, locs, vs>>

Next == Aggregate \/ Fit \/ Day \/ DesignFit
Spec == Init /\ [][Next]_vars /\ WF_vars(Next)

\* ---------------------------------------------------------------- properties
TypeOK ==
  /\ pc \in {"aggregate", "fit", "days", "done", "end"}
  /\ N >= 3 /\ NT >= 1 /\ NC >= 0 /\ cK > 0 /\ cD > 0 /\ DF >= 1
  /\ Len(locs) = t /\ Len(vs) = t /\ t <= AnalysedDays(uc)

\* Layout independence: whatever the layout, the analysis data restricted to the assigned periods are the totals.
AggregateIsTotals ==
  pc # "aggregate" => /\ Sel(tx, tlab, {"pre", "test", "cool"}) = x
                      /\ Sel(ty, tlab, {"pre", "test", "cool"}) = y
                      /\ Sel(tlab, tlab, {"pre", "test", "cool"}) = BaseLab

\* The fitted line is THE least-squares line: the residuals satisfy the normal equations, and
\* RSS = D / (n K), so sigma^2 = RSS / (n - 2) = D / ((n-2) n K) with n - 2 degrees of freedom.
FitIsOLS ==
  pc \in {"days", "done", "end"} =>
    /\ fit.n = N /\ fK = cK /\ fP = cP /\ fA = cA /\ fD = cD
    /\ SumF([i \in 1..N |-> ResNum(i)], 1, N) = 0
    /\ SumF([i \in 1..N |-> x[i] * ResNum(i)], 1, N) = 0
    /\ SumF([i \in 1..N |-> ResNum(i) * ResNum(i)], 1, N) = cD * NK

\* The day loop computes the closed form of Kerman (2017) eq. 5 on every analysed day.
ImplRefinesClosedForm ==
  \A k \in 1..t : /\ locs[k] = LocNum(k)
                  /\ N * vs[k] = V(k)
                  /\ vs[k] > 0
Finished == pc \in {"done", "end"} => t = AnalysedDays(uc) /\ cumx = Cx(t) /\ cumy = Cy(t)

\* The design-side fit is the analysis-side posterior of the last analysed day.
DesignAgrees ==
  pc = "end" => /\ RatEq(dfit.est, <<LocNum(t), NK>>)
                /\ RatEq(dfit.sf, <<V(t), NK>>)

\* C18 identities that do not involve the quantile: with cf_i = a + b x_i the counterfactual and
\* pw_i = y_i - cf_i the pointwise difference (both over n K), cf + pw = observed by definition,
\* pre-period pw are the residuals (sum to zero), and the cumulative effect of the last day is loc_T.
EffectSeriesIdentities ==
  pc \in {"done", "end"} =>
    /\ \A i \in 1..L : (cA + N * cP * x[i]) + ResNum(i) = NK * y[i]
    /\ SumF([i \in 1..L |-> ResNum(i)], N + 1, N + t) = locs[t]
    /\ SumF([i \in 1..L |-> ResNum(i)], 1, N + t) = locs[t]

\* NOT an invariant of the model (checked in a separate run that must produce a counterexample):
\* the pointwise series satisfies lower <= estimate <= upper on every analysed day.
EffectSeriesOrdered == Monotone

Terminates == <>(pc = "end")

\* ---------------------------------------------------------------- emission
Lab2Int(s) == IF s = "pre" THEN 0 ELSE IF s = "test" THEN 1 ELSE 2
Emit ==
  (pc = "end" /\ uc /\ Sampled) =>
    PrintT(ToJson([
      npre |-> N, ntest |-> NT, ncool |-> NC, x |-> x, y |-> y,
      lab |-> [i \in 1..L |-> Lab2Int(BaseLab[i])],
      df |-> DF, K |-> cK, P |-> cP, A |-> cA, nk |-> NK, D |-> cD,
      resnum |-> [i \in 1..N |-> ResNum(i)],
      locnum |-> locs,
      V |-> [k \in 1..t |-> N * vs[k]],
      varden |-> <<DF, N, N, cK, cK>>,
      monosign |-> [k \in 1..t |-> MonoSign(k)],
      mono |-> Monotone, strict |-> StrictlyMonotone,
      dest |-> dfit.est, dsf |-> dfit.sf, sig2 |-> <<cD, DF * NK>>,
      hash |-> Hash]))
=============================================================================
