------------------------------ MODULE TBRModel ------------------------------
(***************************************************************************)
(* Time Based Regression posterior of the cumulative causal effect         *)
(* (properties C06 and C18).                                               *)
(*                                                                         *)
(*   tbr.TBR.fit / causal_cumulative_distribution / summary                *)
(*   tbrmmdiagnostics.TBRMMDiagnostics.tbrfit            (design side)     *)
(*   tbr_iroas.TBRiROAS.estimate_pointwise_and_cumulative_effect           *)
(*                                                                         *)
(* A case is a pair of per-date GROUP TOTALS  x (control), y (treatment),   *)
(* small non-negative integers, with a shape (n_pre, n_test, n_cool):      *)
(* the first n_pre dates are the pre-period, then the test period, then    *)
(* the cooldown period.  Nothing else enters the contract, so the number   *)
(* of geos per group, the order of rows and geos / dates that are not      *)
(* assigned to a group / period are irrelevant BY CONSTRUCTION; the        *)
(* Aggregate action re-checks that on a few concrete layouts.              *)
(*                                                                         *)
(* Exact arithmetic.  With n = n_pre and sums over the pre-period          *)
(*   S = Sum x, Q = Sum x^2, Sy = Sum y, Qy = Sum y^2, Sxy = Sum x y       *)
(*   K  = n Q - S^2        (= n S_xx > 0 demanded)                         *)
(*   P  = n Sxy - S Sy     b = P / K                                       *)
(*   A  = Sy K - P S       a = A / (n K)                                   *)
(*   Ky = n Qy - Sy^2      D = Ky K - P^2   RSS = D / (n K)  (> 0 demanded)*)
(*   sigma^2 = D / ((n-2) n K)           df = n - 2                        *)
(* every quantity of a date i is a rational over the denominator n K:      *)
(*   y_i - a - b x_i = ResNum(i) / (n K)                                   *)
(* and for the k-th analysed day (k = 1 .. n_test (+ n_cool))              *)
(*   loc_k = LocNum(k) / (n K)                                             *)
(*   var_k = sigma^2 (k + k^2/n + (Sum_{i<=k}(x_i - xbar))^2 / S_xx)       *)
(*         = D V(k) / ((n-2) n^2 K^2),   V(k) = k n K + k^2 K + E(k)^2,    *)
(*           E(k) = Sum_{i<=k} (n x_i - S)            (Kerman 2017, eq 5). *)
(* Products that could exceed 2^31 are never formed: var_k is printed as   *)
(* the factor lists <<D, V(k)>> / <<n-2, n, n, K, K>> and multiplied by    *)
(* the replayer with fractions.Fraction.  With values <= 3, n <= 5 and at  *)
(* most 5 analysed days: K <= 54, D < 3200, V(k) < 10^4, |LocNum| < 10^4.  *)
(***************************************************************************)
EXTENDS Integers, Sequences, FiniteSets, TLC, Json

CONSTANTS Shapes,      \* set of shape codes 10000 yfree + 1000 maxv + 100 n_pre + 10 n_test + n_cool
                       \* (a cfg cannot hold tuples in a set): values are 0..maxv; yfree = 1: the treatment
                       \* totals of the test / cooldown days range over all of 0..maxv, yfree = 0: they are
                       \* a fixed function of the other data (they enter loc_k only, additively)
          SampleMod,   \* a case is emitted when Hash % SampleMod = SampleRes % SampleMod ...
          SampleRes,
          NMMod,       \* ... or it has a non-monotone scale and Hash % NMMod = SampleRes % NMMod
          EmitOnly     \* TRUE: only sampled cases are initial states (the emitting run)

VARIABLES shape, x, y,       \* the case (chosen in Init, never changes)
          c,                 \* what the contract demands for the case (= Contract, fixed in Init)
          pc,                \* "aggregate" | "fit" | "select" | "days" | "done" | "end"
          tlab, tx, ty,      \* analysis_data: per-date labels and group totals (all dates of the frame)
          fit,               \* sufficient statistics of the pre-period OLS fit
          uc,                \* use_cooldown
          ax, ay,            \* control / treatment totals of the analysed days (test, or test + cooldown)
          t, cumx, cumy,     \* day loop: days done, cumulative control / treatment totals
          locs, vs,          \* per analysed day: numerator of loc over n K; V_impl with var = D V_impl/((n-2) n K^2)
          dfit               \* design-side tbrfit result: [est |-> rational, sf |-> rational scale^2/sigma^2]
vars == <<shape, x, y, c, pc, tlab, tx, ty, fit, uc, ax, ay, t, cumx, cumy, locs, vs, dfit>>

\* ---------------------------------------------------------------- rationals <<num, den>>, den > 0, lowest terms
Abs(i) == IF i < 0 THEN -i ELSE i
RECURSIVE GCD(_, _)
GCD(a, b) == IF b = 0 THEN a ELSE GCD(b, a % b)
RatNorm(r) == LET g == GCD(Abs(r[1]), r[2]) IN <<r[1] \div g, r[2] \div g>>      \* den > 0 so g > 0
Rat(a, b) == RatNorm(IF b < 0 THEN <<-a, -b>> ELSE <<a, b>>)
RatAdd(p, q) == Rat(p[1] * q[2] + q[1] * p[2], p[2] * q[2])
RatSub(p, q) == Rat(p[1] * q[2] - q[1] * p[2], p[2] * q[2])
RatMul(p, q) == Rat(p[1] * q[1], p[2] * q[2])
RatDiv(p, q) == Rat(p[1] * q[2], p[2] * q[1])                                      \* q # 0
RatEq(p, q) == p[1] * q[2] = q[1] * p[2]
RatLe(p, q) == p[1] * q[2] <= q[1] * p[2]

\* ---------------------------------------------------------------- sums
RECURSIVE SumF(_, _, _)          \* Sum_{i = lo..hi} f[i]
SumF(f, lo, hi) == IF hi < lo THEN 0 ELSE f[hi] + SumF(f, lo, hi - 1)
Sum(s) == SumF(s, 1, Len(s))
Prod2(s, u) == [i \in 1..Len(s) |-> s[i] * u[i]]
RECURSIVE HashF(_, _, _)
HashF(s, k, h) == IF k > Len(s) THEN h ELSE HashF(s, k + 1, (h * 31 + s[k] + 1) % 65521)

\* ---------------------------------------------------------------- the declarative contract (closed form)
YF == shape \div 10000
MV == (shape % 10000) \div 1000
N  == (shape % 1000) \div 100
NT == (shape % 100) \div 10
NC == shape % 10
T  == NT + NC
L  == N + T
BaseLab == [i \in 1..L |-> IF i <= N THEN "pre" ELSE IF i <= N + NT THEN "test" ELSE "cool"]

cS   == SumF(x, 1, N)
cQ   == SumF(Prod2(x, x), 1, N)
cSy  == SumF(y, 1, N)
cQy  == SumF(Prod2(y, y), 1, N)
cSxy == SumF(Prod2(x, y), 1, N)
cK   == N * cQ - cS * cS
cP   == N * cSxy - cS * cSy
cD   == (N * cQy - cSy * cSy) * cK - cP * cP

Contract ==
  LET S == cS
      K == cK
      P == cP
      A == cSy * K - P * S
      nk == N * K
      res == [i \in 1..L |-> nk * y[i] - A - N * P * x[i]]          \* (y_i - a - b x_i) n K, any date i
      Cx == [k \in 1..T |-> SumF(x, N + 1, N + k)]
      Cy == [k \in 1..T |-> SumF(y, N + 1, N + k)]
      E  == [k \in 1..T |-> N * Cx[k] - k * S]                      \* n Sum_{i<=k} (x_i - xbar)
  IN [S |-> S, K |-> K, P |-> P, A |-> A, D |-> cD, nk |-> nk, df |-> N - 2,
      res |-> res,
      Cx |-> Cx, Cy |-> Cy,
      loc |-> [k \in 1..T |-> nk * Cy[k] - k * A - N * P * Cx[k]]   \* loc_k n K: cumulative observed minus counterfactual
                                                                    \* = Sum_{i<=k} res[N + i]
      , V |-> [k \in 1..T |-> k * N * K + k * k * K + E[k] * E[k]]] \* var_k = D V[k] / ((n-2) n^2 K^2)

AnalysedDays(u) == IF u THEN T ELSE NT

\* C18.  The cumulative q-quantile of day k is loc_k + q s_k, s_k = sqrt(var_k); the pointwise bounds are
\* first differences (prepend 0):  lower_k = est_k + qlo (s_k - s_{k-1}),  upper_k = est_k + qup (s_k - s_{k-1})
\* with est_k = loc_k - loc_{k-1}, qlo < 0 < qup, s_0 = 0.  Hence lower_k <= est_k <= upper_k  <=>
\* s_k >= s_{k-1}  <=>  var_k >= var_{k-1}  <=>  V[k] >= V[k-1]: decided exactly, no square root needed.
Vat(v, k) == IF k = 0 THEN 0 ELSE v[k]
MonotoneV(v) == \A k \in 1..Len(v) : v[k] >= Vat(v, k - 1)
StrictV(v) == \A k \in 1..Len(v) : v[k] > Vat(v, k - 1)
MonoSign(v, k) == IF v[k] > Vat(v, k - 1) THEN 1 ELSE IF v[k] = Vat(v, k - 1) THEN 0 ELSE 0 - 1

\* C06, summary rows.  lower = loc_k + q(alpha) s_k with alpha = (1 - level) / tails and q the quantile function of
\* the standard t (odd around 1/2, increasing), so  lower <= estimate (= loc_k, the median)  <=>  alpha <= 1/2.
\* That holds for every level in (0,1) when tails = 2, and exactly for level >= 1/2 when tails = 1 (with equality,
\* i.e. lower = estimate up to rounding, at level = 1/2).  The replayer's finding class "tails = 1 and level <= 1/2"
\* is the complement (plus the boundary).  Levels are rationals <<num, den>>.
LevelGrid == {<<1, 4>>, <<2, 5>>, <<1, 2>>, <<4, 5>>, <<9, 10>>, <<99, 100>>}
TailAlpha(level, tails) == Rat(level[2] - level[1], level[2] * tails)
LowerAtOrBelowMedian(level, tails) == RatLe(TailAlpha(level, tails), <<1, 2>>)
ASSUME SummaryOrderingFacts ==
  \A lv \in LevelGrid : /\ LowerAtOrBelowMedian(lv, 2)
                        /\ (LowerAtOrBelowMedian(lv, 1) <=> RatLe(<<1, 2>>, lv))

Hash == HashF(x \o y, 1, 7 + (shape % 10000))
RawV == LET S == cS
            K == cK
        IN [k \in 1..T |-> LET e == N * SumF(x, N + 1, N + k) - k * S IN k * N * K + k * k * K + e * e]
Sampled == \/ Hash % SampleMod = SampleRes % SampleMod
           \/ (Hash % NMMod = SampleRes % NMMod /\ ~MonotoneV(RawV))

\* ---------------------------------------------------------------- layouts (presentation of one case as a geo-level frame)
\* A layout is [lab : labels per date, geos : sequence of [grp, v]]; grp 1 = control, 2 = treatment, -1 = unassigned.
\* Rows are a function of (geo, date): row order does not exist in the model.
Control == 1
Treatment == 2
Unassigned == 0 - 1
LayoutKinds == 1..4
Ins(s, v) == <<v>> \o SubSeq(s, 1, N) \o <<v>> \o SubSeq(s, N + 1, L) \o <<v, v>>   \* extra dates: before, between, after
Layout(k) ==
  CASE k = 1 -> [lab |-> BaseLab, geos |-> <<[grp |-> Control, v |-> x], [grp |-> Treatment, v |-> y]>>]
    [] k = 2 -> [lab |-> BaseLab,                                 \* two control geos, three treatment geos
                 geos |-> <<[grp |-> Treatment, v |-> [i \in 1..L |-> y[i] - i]],
                            [grp |-> Control, v |-> [i \in 1..L |-> x[i] + 2]],
                            [grp |-> Treatment, v |-> [i \in 1..L |-> i - 1]],
                            [grp |-> Control, v |-> [i \in 1..L |-> 0 - 2]],
                            [grp |-> Treatment, v |-> [i \in 1..L |-> 1]]>>]
    [] k = 3 -> [lab |-> BaseLab,                                 \* plus geos of the unassigned group
                 geos |-> <<[grp |-> Unassigned, v |-> [i \in 1..L |-> 5 + i]], [grp |-> Control, v |-> x],
                            [grp |-> Treatment, v |-> y], [grp |-> Unassigned, v |-> y]>>]
    [] k = 4 -> [lab |-> Ins(BaseLab, "none"),                    \* plus dates of the unassigned period
                 geos |-> <<[grp |-> Control, v |-> Ins(x, 9)], [grp |-> Treatment, v |-> Ins(y, 7)],
                            [grp |-> Unassigned, v |-> Ins(x, 1)]>>]
GroupTotals(lay, g) ==
  [d \in 1..Len(lay.lab) |-> Sum([j \in 1..Len(lay.geos) |-> IF lay.geos[j].grp = g THEN lay.geos[j].v[d] ELSE 0])]

RECURSIVE SelF(_, _, _, _)       \* the entries of s at the dates whose label is in P, in date order
SelF(s, lab, P, k) == IF k = 0 THEN <<>>
                      ELSE IF lab[k] \in P THEN Append(SelF(s, lab, P, k - 1), s[k]) ELSE SelF(s, lab, P, k - 1)
Sel(s, lab, P) == SelF(s, lab, P, Len(s))
Periods(u) == IF u THEN {"test", "cool"} ELSE {"test"}

\* ---------------------------------------------------------------- implementation-shaped pipeline
DerivedY(yp, i) == (x[i] + yp[((i - 1) % N) + 1] + i) % (MV + 1)
Init ==
  /\ shape \in Shapes
  /\ x \in [1..L -> 0..MV]
  /\ cK > 0
  /\ \E yp \in [1..N -> 0..MV] :
       IF YF = 1 THEN \E yt \in [1..T -> 0..MV] : y = yp \o yt
                 ELSE y = yp \o [i \in 1..T |-> DerivedY(yp, N + i)]
  /\ cD > 0
  /\ (EmitOnly => Sampled)
  /\ c = Contract
  /\ pc = "aggregate" /\ tlab = <<>> /\ tx = <<>> /\ ty = <<>> /\ uc = TRUE /\ ax = <<>> /\ ay = <<>>
  /\ fit = [n |-> 0, S |-> 0, Q |-> 0, Sy |-> 0, Qy |-> 0, Sxy |-> 0]
  /\ t = 0 /\ cumx = 0 /\ cumy = 0 /\ locs = <<>> /\ vs = <<>>
  /\ dfit = [est |-> <<0, 1>>, sf |-> <<0, 1>>]

\* TBR._construct_analysis_data: data.groupby([group, date]).agg({target: 'sum', period: 'max'}).
\* Any layout may be presented; the successor state holds totals per (group, date) only.
Aggregate ==
  /\ pc = "aggregate"
  /\ \E k \in LayoutKinds :
       LET lay == Layout(k)
       IN /\ tlab' = lay.lab
          /\ tx' = GroupTotals(lay, Control)
          /\ ty' = GroupTotals(lay, Treatment)
  /\ pc' = "fit"
  /\ UNCHANGED <<shape, x, y, c, fit, uc, ax, ay, t, cumx, cumy, locs, vs, dfit>>

\* TBR._fit_pre_period_model: sm.OLS(treatment[pre], [1, control[pre]]).fit() - only the normal-equation sums
\* enter.
Fit ==
  /\ pc = "fit"
  /\ LET px == Sel(tx, tlab, {"pre"})
         py == Sel(ty, tlab, {"pre"})
     IN fit' = [n |-> Len(px), S |-> Sum(px), Q |-> Sum(Prod2(px, px)),
                Sy |-> Sum(py), Qy |-> Sum(Prod2(py, py)), Sxy |-> Sum(Prod2(px, py))]
  /\ pc' = "select"
  /\ UNCHANGED <<shape, x, y, c, tlab, tx, ty, uc, ax, ay, t, cumx, cumy, locs, vs, dfit>>

\* Head of causal_cumulative_distribution: periods = (test, cooldown) if use_cooldown else (test,);
\* causal_effect(periods) and _design_matrix(period_index) select the analysed rows of analysis_data once,
\* in date order.  Both settings of use_cooldown are explored.  The loop below reads nothing but the
\* selected rows and the fit, so analysis_data is dropped from the state here (this merges the states of
\* all layouts of one case).
Select ==
  /\ pc = "select"
  /\ uc' \in BOOLEAN
  /\ ax' = Sel(tx, tlab, Periods(uc'))
  /\ ay' = Sel(ty, tlab, Periods(uc'))
  /\ tlab' = <<>> /\ tx' = <<>> /\ ty' = <<>>
  /\ pc' = "days"
  /\ UNCHANGED <<shape, x, y, c, fit, t, cumx, cumy, locs, vs, dfit>>

fK == fit.n * fit.Q - fit.S * fit.S
fP == fit.n * fit.Sxy - fit.S * fit.Sy
fA == fit.Sy * fK - fP * fit.S
fD == (fit.n * fit.Qy - fit.Sy * fit.Sy) * fK - fP * fP

\* causal_cumulative_distribution, one step of the loop `for t in np.arange(len_test)` together with the
\* cumsum of the causal effect:
\*   delta_mean[t] = delta_mean[t-1] + (y_t - a - b x_t)
\*   cntrl_cum_mat[t] = (1, cumx/t);  vsigma = sigma^2 (X'X)^-1 = sigma^2/K [[Q, -S], [-S, n]]
\*   var_from_params[t] = t^2 (1, m) vsigma (1, m)' = sigma^2 (Q t^2 - 2 S t cumx + n cumx^2) / K
\*   var_from_observations[t] = t sigma^2
\* so delta_var[t] = sigma^2 (t K + W) / K = D (t K + W) / ((n-2) n K^2); vs holds t K + W.
Day ==
  /\ pc = "days"
  /\ t < Len(ax)
  /\ LET k  == t + 1
         cx == cumx + ax[k]
         cy == cumy + ay[k]
         K  == fK
         eff == fit.n * K * ay[k] - fA - fit.n * fP * ax[k]
         prev == IF t = 0 THEN 0 ELSE locs[t]
         W  == fit.Q * k * k - 2 * fit.S * k * cx + fit.n * cx * cx
     IN /\ t' = k /\ cumx' = cx /\ cumy' = cy
        /\ locs' = Append(locs, prev + eff)
        /\ vs' = Append(vs, k * K + W)
        /\ pc' = IF k = Len(ax) THEN "done" ELSE "days"
  /\ UNCHANGED <<shape, x, y, c, tlab, tx, ty, fit, uc, ax, ay, dfit>>

\* TBRMMDiagnostics(y_pre, par).x = x_pre; tbrfit(xt, yt) with par.n_test = t analysed days and
\* xt, yt the means over the analysed days; written with the code's own intermediate quantities:
\*   dx = xt - mean(x); dy = yt - mean(y); estimate = n_test (dy - b dx)
\*   dv = dx^2 / np.var(x, ddof=0); scale = n_test sigma sqrt((1 + dv)/n + 1/n_test)
DesignFit ==
  /\ pc = "done"
  /\ LET nt == t
         n  == fit.n
         K  == fK
         dx == RatSub(Rat(cumx, nt), Rat(fit.S, n))
         dy == RatSub(Rat(cumy, nt), Rat(fit.Sy, n))
         b  == Rat(fP, K)
         var0 == Rat(K, n * n)                                  \* Sum (x - xbar)^2 / n = K / n^2
         dv == RatDiv(RatMul(dx, dx), var0)
         inner == RatAdd(RatDiv(RatAdd(<<1, 1>>, dv), <<n, 1>>), Rat(1, nt))
     IN dfit' = [est |-> RatMul(<<nt, 1>>, RatSub(dy, RatMul(b, dx))),
                 sf  |-> RatMul(<<nt * nt, 1>>, inner)]           \* scale^2 / sigma^2
  /\ pc' = "end"
  /\ UNCHANGED <<shape, x, y, c, tlab, tx, ty, fit, uc, ax, ay, t, cumx, cumy, locs, vs>>

Next == Aggregate \/ Fit \/ Select \/ Day \/ DesignFit
Spec == Init /\ [][Next]_vars /\ WF_vars(Next)

\* ---------------------------------------------------------------- properties
TypeOK ==
  /\ pc \in {"aggregate", "fit", "select", "days", "done", "end"}
  /\ N >= 3 /\ NT >= 1 /\ NC >= 0 /\ c.K > 0 /\ c.D > 0 /\ c.df >= 1
  /\ Len(locs) = t /\ Len(vs) = t /\ t <= AnalysedDays(uc)

\* Layout independence: whatever the layout, the analysis data restricted to the assigned periods are the totals.
AggregateIsTotals ==
  pc \in {"fit", "select"} => /\ Sel(tx, tlab, {"pre", "test", "cool"}) = x
                            /\ Sel(ty, tlab, {"pre", "test", "cool"}) = y
                            /\ Sel(tlab, tlab, {"pre", "test", "cool"}) = BaseLab

\* The analysed days are the test days, followed by the cooldown days iff use_cooldown.
SelectedAreAnalysed ==
  pc \in {"days", "done", "end"} => /\ ax = SubSeq(x, N + 1, N + AnalysedDays(uc))
                                   /\ ay = SubSeq(y, N + 1, N + AnalysedDays(uc))

\* The fitted line is THE least-squares line: the residuals satisfy the normal equations, and
\* RSS = D / (n K), so sigma^2 = RSS / (n - 2) = D / ((n-2) n K) with n - 2 degrees of freedom.
FitIsOLS ==
  pc = "select" =>
    /\ fit.n = N /\ fK = c.K /\ fP = c.P /\ fA = c.A /\ fD = c.D
    /\ SumF(c.res, 1, N) = 0
    /\ SumF(Prod2(x, c.res), 1, N) = 0
    /\ SumF(Prod2(c.res, c.res), 1, N) = c.D * c.nk

\* The day loop computes the closed form of Kerman (2017) eq. 5 on every analysed day
\* (day t is judged in the state in which it has just been produced).
ImplRefinesClosedForm ==
  t > 0 => /\ locs[t] = c.loc[t]
           /\ N * vs[t] = c.V[t]
           /\ vs[t] > 0
Finished == pc \in {"done", "end"} => t = AnalysedDays(uc) /\ cumx = c.Cx[t] /\ cumy = c.Cy[t]

\* The design-side fit is the analysis-side posterior of the last analysed day.
DesignAgrees ==
  pc = "end" => /\ RatEq(dfit.est, <<c.loc[t], c.nk>>)
                /\ RatEq(dfit.sf, <<c.V[t], c.nk>>)

\* C18 identities that do not involve the quantile: with cf_i = a + b x_i the counterfactual and
\* pw_i = y_i - cf_i the pointwise difference (both over n K), cf + pw = observed,
\* pre-period pw are the residuals (sum to zero), and the cumulative effect of the last day is loc_T.
EffectSeriesIdentities ==
  pc = "done" =>
    /\ \A i \in 1..L : (c.A + N * c.P * x[i]) + c.res[i] = c.nk * y[i]
    /\ SumF(c.res, N + 1, N + t) = locs[t]
    /\ SumF(c.res, 1, N + t) = locs[t]

\* NOT an invariant of the model (checked in a separate run that must produce a counterexample):
\* the pointwise series satisfies lower <= estimate <= upper on every analysed day.
EffectSeriesOrdered == MonotoneV(c.V)

Terminates == <>(pc = "end")

\* ---------------------------------------------------------------- emission
Lab2Int(s) == IF s = "pre" THEN 0 ELSE IF s = "test" THEN 1 ELSE 2
Emit ==
  (pc = "end" /\ uc /\ Sampled) =>
    PrintT(ToJson([
      shape |-> shape, npre |-> N, ntest |-> NT, ncool |-> NC, x |-> x, y |-> y,
      lab |-> [i \in 1..L |-> Lab2Int(BaseLab[i])],
      df |-> c.df, K |-> c.K, P |-> c.P, A |-> c.A, nk |-> c.nk, D |-> c.D,
      resnum |-> [i \in 1..N |-> c.res[i]],
      locnum |-> locs,
      V |-> [k \in 1..t |-> N * vs[k]],
      varden |-> <<c.df, N, N, c.K, c.K>>,
      monosign |-> [k \in 1..t |-> MonoSign(c.V, k)],
      mono |-> MonotoneV(c.V), strict |-> StrictV(c.V),
      dest |-> dfit.est, dsf |-> dfit.sf, sig2 |-> <<c.D, c.df * c.nk>>,
      hash |-> Hash]))
=============================================================================
