------------------------------- MODULE Params -------------------------------
(***************************************************************************)
(* tbrmmdesignparameters.TBRMMDesignParameters (property C17).             *)
(*                                                                         *)
(* Sixteen fields.  FieldTable is the documented domain, transcribed from  *)
(* the class docstring: lower bound (a rational <<num, den>>) with its     *)
(* closed / open end, upper bound ("none": the docstring gives only a      *)
(* lower bound; "one": < 1.0; "inf": members of a range must be finite),   *)
(* integrality, optional (None allowed), documented default.               *)
(*                                                                         *)
(* Values are abstract.  A number is a *point* of an ordered grid around   *)
(* the field's bounds; Pos gives the order (equal Pos = numerically equal  *)
(* values of possibly different Python types).  The replayer binds every   *)
(* point to a concrete Python value (math.nextafter neighbours of the      *)
(* bounds) and verifies that the concrete values have exactly the order    *)
(* and integrality the grid claims.                                        *)
(*   a scalar value   [tag |-> "pt",   p |-> point, q |-> "-"]             *)
(*   a pair value     [tag |-> "pair", p |-> first, q |-> second]          *)
(*   a structural one [tag |-> "tok",  p |-> token, q |-> "-"]             *)
(*       none, omitted (argument not passed: the default applies), tuple / *)
(*       list (given to a scalar field), arity0 / arity1 / arity3, list    *)
(*       (two good numbers in a list), scalar, string (given to a range)   *)
(*                                                                         *)
(* Contract: Verdict(field, value) in {"accept", "reject", "either"}; an   *)
(* object is accepted iff every field is.  "either" marks what neither the *)
(* docstring nor the property decides (a range with equal ends; an int     *)
(* where the docstring says float) - there the code may accept or raise    *)
(* ValueError.                                                             *)
(* Implementation shape: __post_init__ as sixteen checks in the code's     *)
(* order, each shaped like its helper (_test_value_vs_threshold,           *)
(* _test_value_within_bounds, _test_range); the first failing check        *)
(* raises.  RefinesContract: it never accepts what the contract rejects    *)
(* and never rejects what the contract accepts.                            *)
(***************************************************************************)
EXTENDS Integers, Sequences, FiniteSets, TLC, Json

CONSTANTS DoubleReps   \* "few" | "all": how many rejected values per field enter the two-fault cases

NoRat == <<0, 0>>
FieldTable == <<
  [name |-> "n_test",                 shape |-> "thr", lo |-> <<1, 1>>,  lo_closed |-> TRUE,  hi |-> "none", int |-> TRUE,  opt |-> FALSE, req |-> TRUE,  dflt |-> NoRat, strict |-> FALSE],
  [name |-> "iroas",                  shape |-> "thr", lo |-> <<0, 1>>,  lo_closed |-> TRUE,  hi |-> "none", int |-> FALSE, opt |-> FALSE, req |-> TRUE,  dflt |-> NoRat, strict |-> FALSE],
  [name |-> "volume_ratio_tolerance", shape |-> "thr", lo |-> <<0, 1>>,  lo_closed |-> FALSE, hi |-> "none", int |-> FALSE, opt |-> TRUE,  req |-> FALSE, dflt |-> NoRat, strict |-> FALSE],
  [name |-> "geo_ratio_tolerance",    shape |-> "thr", lo |-> <<0, 1>>,  lo_closed |-> FALSE, hi |-> "none", int |-> FALSE, opt |-> TRUE,  req |-> FALSE, dflt |-> NoRat, strict |-> FALSE],
  [name |-> "treatment_share_range",  shape |-> "rng", lo |-> <<0, 1>>,  lo_closed |-> FALSE, hi |-> "one",  int |-> FALSE, opt |-> TRUE,  req |-> FALSE, dflt |-> NoRat, strict |-> TRUE],
  [name |-> "budget_range",           shape |-> "rng", lo |-> <<0, 1>>,  lo_closed |-> TRUE,  hi |-> "inf",  int |-> FALSE, opt |-> TRUE,  req |-> FALSE, dflt |-> NoRat, strict |-> TRUE],
  [name |-> "treatment_geos_range",   shape |-> "rng", lo |-> <<1, 1>>,  lo_closed |-> TRUE,  hi |-> "inf",  int |-> TRUE,  opt |-> TRUE,  req |-> FALSE, dflt |-> NoRat, strict |-> FALSE],
  [name |-> "control_geos_range",     shape |-> "rng", lo |-> <<1, 1>>,  lo_closed |-> TRUE,  hi |-> "inf",  int |-> TRUE,  opt |-> TRUE,  req |-> FALSE, dflt |-> NoRat, strict |-> FALSE],
  [name |-> "n_geos_max",             shape |-> "thr", lo |-> <<2, 1>>,  lo_closed |-> TRUE,  hi |-> "none", int |-> TRUE,  opt |-> TRUE,  req |-> FALSE, dflt |-> NoRat, strict |-> FALSE],
  [name |-> "n_pretest_max",          shape |-> "thr", lo |-> <<3, 1>>,  lo_closed |-> TRUE,  hi |-> "none", int |-> TRUE,  opt |-> FALSE, req |-> FALSE, dflt |-> <<90, 1>>, strict |-> FALSE],
  [name |-> "n_designs",              shape |-> "thr", lo |-> <<1, 1>>,  lo_closed |-> TRUE,  hi |-> "none", int |-> TRUE,  opt |-> FALSE, req |-> FALSE, dflt |-> <<1, 1>>, strict |-> FALSE],
  [name |-> "sig_level",              shape |-> "win", lo |-> <<0, 1>>,  lo_closed |-> FALSE, hi |-> "one",  int |-> FALSE, opt |-> FALSE, req |-> FALSE, dflt |-> <<9, 10>>, strict |-> FALSE],
  [name |-> "power_level",            shape |-> "win", lo |-> <<0, 1>>,  lo_closed |-> FALSE, hi |-> "one",  int |-> FALSE, opt |-> FALSE, req |-> FALSE, dflt |-> <<8, 10>>, strict |-> FALSE],
  [name |-> "min_corr",               shape |-> "win", lo |-> <<8, 10>>, lo_closed |-> TRUE,  hi |-> "one",  int |-> FALSE, opt |-> FALSE, req |-> FALSE, dflt |-> <<8, 10>>, strict |-> FALSE],
  [name |-> "rho_max",                shape |-> "win", lo |-> <<9, 10>>, lo_closed |-> TRUE,  hi |-> "one",  int |-> FALSE, opt |-> FALSE, req |-> FALSE, dflt |-> <<995, 1000>>, strict |-> FALSE],
  [name |-> "flevel",                 shape |-> "win", lo |-> <<9, 10>>, lo_closed |-> TRUE,  hi |-> "one",  int |-> FALSE, opt |-> FALSE, req |-> FALSE, dflt |-> <<9, 10>>, strict |-> FALSE]
>>
\* 'strict' is not part of the documented domain: it records which ranges the *code* orders with '<' (used by
\* the implementation shape only).  The order in FieldTable is the order of the dataclass fields; CheckOrder is
\* the order of the checks in __post_init__ (rho_max is tested before sig_level).
NF == Len(FieldTable)
Fields == 1..NF
CheckOrder == <<1, 2, 3, 4, 5, 6, 7, 8, 9, 10, 11, 15, 12, 13, 14, 16>>
D(f) == FieldTable[f]
HasDefault(f) == D(f).dflt[2] # 0
IsPair(f) == D(f).shape = "rng"
OneRat == <<1, 1>>
RatLt(a, b) == a[1] * b[2] < b[1] * a[2]
RatEq(a, b) == a[1] * b[2] = b[1] * a[2]
DefaultAtLo(f) == HasDefault(f) /\ RatEq(D(f).dflt, D(f).lo)

\* ---------------------------------------------------------------- the grid
\* positions are doubled so that the default can sit strictly between in_b and the next point
Pos(f, p) == CASE p = "ninf" -> 2 [] p = "lo_minus" -> 4 [] p = "fp_below_lo" -> 6
               [] p \in {"at_lo", "at_lo_f", "neg_zero"} -> 8
               [] p = "fp_above_lo" -> 10 [] p = "in_a" -> 12 [] p \in {"in_nonint", "in_int"} -> 14
               [] p = "in_b" -> 16
               [] p = "dflt" -> IF DefaultAtLo(f) THEN 8 ELSE 17
               [] p \in {"big", "fp_below_hi"} -> 18
               [] p = "at_hi" -> 20 [] p = "fp_above_hi" -> 22 [] p = "hi_plus" -> 24 [] p = "pinf" -> 26
               [] OTHER -> 0
PosLo == 8
PosHi(f) == IF D(f).hi = "one" THEN 20 ELSE 26      \* an infinite upper bound sits where pinf sits
NumKind(p) == CASE p = "nan" -> "nan" [] p = "str" -> "str" [] p = "none_m" -> "none" [] OTHER -> "num"
\* integer-VALUED points of an integer field (7 and 7.0 both are; 7.5, the float neighbours, the infinities are not)
Integral(f, p) == p \in {"lo_minus", "at_lo", "at_lo_f", "in_a", "in_b", "big", "dflt"}
\* an int given where the docstring says 'float'
IntTyped(f, p) == ~D(f).int /\ p = "in_int"

PointsOf(f) ==
  {"ninf", "lo_minus", "fp_below_lo", "at_lo", "fp_above_lo", "in_a", "in_b", "pinf", "nan", "str"}
  \cup (IF D(f).int THEN {"at_lo_f", "in_nonint", "big"} ELSE {})
  \cup (IF ~D(f).int /\ D(f).hi # "one" THEN {"in_int", "big"} ELSE {})
  \cup (IF D(f).hi = "one" THEN {"fp_below_hi", "at_hi", "fp_above_hi", "hi_plus"} ELSE {})
  \cup (IF D(f).lo[1] = 0 THEN {"neg_zero"} ELSE {})
  \cup (IF HasDefault(f) THEN {"dflt"} ELSE {})

Pt(p) == [tag |-> "pt", p |-> p, q |-> "-"]
Pair(p, q) == [tag |-> "pair", p |-> p, q |-> q]
Tok(t) == [tag |-> "tok", p |-> t, q |-> "-"]
ScalarToks == {"none", "tuple", "list"}
PairToks == {"none", "arity0", "arity1", "arity3", "list", "scalar", "string"}
Values(f) ==
  (IF IsPair(f)
   THEN {Pair(p, q) : p \in PointsOf(f) \cup {"none_m"}, q \in PointsOf(f) \cup {"none_m"}} \cup {Tok(t) : t \in PairToks}
   ELSE {Pt(p) : p \in PointsOf(f)} \cup {Tok(t) : t \in ScalarToks})
  \cup (IF D(f).req THEN {} ELSE {Tok("omitted")})

\* ---------------------------------------------------------------- contract
\* the documented domain of one number of field f
InDomain(f, p) ==
  /\ NumKind(p) = "num"
  /\ (Pos(f, p) > PosLo \/ (Pos(f, p) = PosLo /\ D(f).lo_closed))
  /\ (D(f).hi = "none" \/ Pos(f, p) < PosHi(f))
  /\ (D(f).int => Integral(f, p))
\* what is stored when the argument is not passed
Resolve(f, v) == IF v = Tok("omitted") THEN (IF HasDefault(f) THEN Pt("dflt") ELSE Tok("none")) ELSE v
Verdict(f, v0) ==
  LET v == Resolve(f, v0) IN
  CASE v.tag = "tok" -> IF v.p = "none" /\ D(f).opt THEN "accept" ELSE "reject"
    [] v.tag = "pt" -> IF IsPair(f) \/ ~InDomain(f, v.p) THEN "reject"
                       ELSE IF IntTyped(f, v.p) THEN "either" ELSE "accept"
    [] v.tag = "pair" -> IF ~IsPair(f) \/ ~InDomain(f, v.p) \/ ~InDomain(f, v.q) \/ Pos(f, v.p) > Pos(f, v.q) THEN "reject"
                         ELSE IF Pos(f, v.p) = Pos(f, v.q) \/ IntTyped(f, v.p) \/ IntTyped(f, v.q) THEN "either"
                         ELSE "accept"
ObjVerdict(o) == IF \E f \in Fields : Verdict(f, o[f]) = "reject" THEN "reject"
                 ELSE IF \E f \in Fields : Verdict(f, o[f]) = "either" THEN "either" ELSE "accept"
\* equality compares field values: numerically equal values are equal whatever their Python type
ValEq(f, v0, w0) ==
  LET v == Resolve(f, v0) w == Resolve(f, w0) IN
    /\ v.tag = w.tag
    /\ CASE v.tag = "tok" -> v.p = w.p
         [] v.tag = "pt" -> Pos(f, v.p) = Pos(f, w.p)
         [] v.tag = "pair" -> Pos(f, v.p) = Pos(f, w.p) /\ Pos(f, v.q) = Pos(f, w.q)
ObjEq(o1, o2) == \A f \in Fields : ValEq(f, o1[f], o2[f])

\* ---------------------------------------------------------------- the enumerated cases
BaseObj(b) == [f \in Fields |->
                 IF b = "defaults" /\ ~D(f).req THEN Tok("omitted")
                 ELSE IF IsPair(f) THEN Pair("in_a", "in_b") ELSE Pt("in_a")]
Range1(s) == {s[j] : j \in 1..Len(s)}
Apply(o, ch) == [f \in Fields |-> IF \E c \in Range1(ch) : c.f = f
                                  THEN (CHOOSE c \in Range1(ch) : c.f = f).v ELSE o[f]]
ObjOf(b, ch) == Apply(BaseObj(b), ch)

Rejected(f) == {v \in Values(f) : Verdict(f, v) = "reject"}
FewFaults(f) == IF IsPair(f) THEN {Pair("in_b", "in_a"), Tok("arity1"), Pair("nan", "in_b")}
                ELSE {Pt("fp_below_lo"), Pt("nan"), Pt("str")}
MoreFaults(f) == IF IsPair(f)
                 THEN {v \in Rejected(f) : v.tag = "tok"} \cup
                      ({Pair("in_b", "in_a"), Pair("lo_minus", "in_a"), Pair("fp_below_lo", "in_b"), Pair("in_a", "pinf"),
                        Pair("nan", "in_b"), Pair("in_a", "nan"), Pair("in_a", "str"), Pair("none_m", "in_b"),
                        Pair("in_a", "in_nonint"), Pair("in_a", "at_hi"), Pair("at_lo", "in_a")} \cap Rejected(f))
                 ELSE Rejected(f)
FaultReps(f) == IF DoubleReps = "all" THEN MoreFaults(f) ELSE FewFaults(f)

AltValid(f) ==
  (IF IsPair(f) THEN {Pair("in_b", IF D(f).hi = "one" THEN "fp_below_hi" ELSE "big")}
   ELSE {Pt("in_b")} \cup (IF D(f).int THEN {Pt("at_lo"), Pt("at_lo_f")} ELSE {})
                     \cup (IF HasDefault(f) THEN {Pt("dflt")} ELSE {}))
  \cup (IF D(f).opt THEN {Tok("none")} ELSE {})
NoChange == <<>>
Change(f, v) == <<[f |-> f, v |-> v]>>
EqObjs == {[base |-> b, ch |-> NoChange] : b \in {"full", "defaults"}}
          \cup UNION {{[base |-> "full", ch |-> Change(f, v)] : v \in {vv \in Values(f) : vv \in AltValid(f)}} : f \in Fields}
          \cup {[base |-> "defaults", ch |-> Change(f, v)] : f \in {ff \in Fields : HasDefault(ff)}, v \in {Pt("dflt")}}

Case(kind, b, ch, b2, ch2) == [kind |-> kind, base |-> b, ch |-> ch, base2 |-> b2, ch2 |-> ch2]
AllCases ==
  {Case("header", "full", NoChange, "full", NoChange), Case("defaults", "defaults", NoChange, "full", NoChange)}
  \cup UNION {{Case("single", b, Change(f, v), "full", NoChange) : b \in {"full", "defaults"}, v \in Values(f)} : f \in Fields}
  \cup UNION {{Case("double", "full", Change(fg[1], v) \o Change(fg[2], w), "full", NoChange)
                 : v \in FaultReps(fg[1]), w \in FaultReps(fg[2])}
              : fg \in {x \in Fields \X Fields : x[1] < x[2]}}
  \cup {Case("eq", a.base, a.ch, b.base, b.ch) : a \in EqObjs, b \in EqObjs}

\* sanity of the enumeration itself (evaluated once, at start-up)
ASSUME \A f \in Fields : FaultReps(f) # {} /\ FaultReps(f) \subseteq Rejected(f)
ASSUME \A e \in EqObjs : ObjVerdict(ObjOf(e.base, e.ch)) = "accept"
ASSUME \A b \in {"full", "defaults"} : ObjVerdict(BaseObj(b)) = "accept"
ASSUME \A f \in Fields : \A k \in Fields : (CheckOrder[f] = CheckOrder[k]) => f = k
\* the documented defaults lie in the documented domain: lo <= d (< when open) and d < 1 where bounded
ASSUME \A f \in Fields : HasDefault(f) =>
          /\ (RatLt(D(f).lo, D(f).dflt) \/ (D(f).lo_closed /\ RatEq(D(f).lo, D(f).dflt)))
          /\ (D(f).hi = "one" => RatLt(D(f).dflt, OneRat))
          /\ (D(f).int => D(f).dflt[2] = 1)

VARIABLES cs,       \* the case (chosen in Init, never changes)
          k,        \* index into CheckOrder of the check to run next
          status    \* "checking" | "done" | "raised" | "header"
vars == <<cs, k, status>>
obj == ObjOf(cs.base, cs.ch)
obj2 == ObjOf(cs.base2, cs.ch2)

Init == /\ cs \in AllCases
        /\ k = 1
        /\ status = IF cs.kind = "header" THEN "header" ELSE "checking"

\* ---------------------------------------------------------------- __post_init__, shaped like the code
\* Python comparisons of two abstract numbers (anything compared with NaN is False)
Num(p) == NumKind(p) \in {"num", "nan"}                     \* isinstance(x, int) or isinstance(x, float)
CmpOk(p) == NumKind(p) = "num"
LoOp(f, closed, p) == CmpOk(p) /\ (IF closed THEN Pos(f, p) >= PosLo ELSE Pos(f, p) > PosLo)   \* lower (<=|<) value
HiLt(f, p) == CmpOk(p) /\ Pos(f, p) < PosHi(f)                                              \* value < upper
IntOk(f, p) == p # "pinf" /\ Integral(f, p)                  \* not (value == inf or int(value) != value)

\* _test_value_vs_threshold (lines 163-193) and _test_value_within_bounds (lines 195-229)
ScalarCheck(f, v0) ==
  LET v == Resolve(f, v0) IN
  IF v.tag = "tok" /\ v.p = "none"
  THEN (IF D(f).opt THEN "ok" ELSE "err")                    \* not specified: return None if optional, else test_ok False
  ELSE IF v.tag # "pt" \/ ~Num(v.p) THEN "err"               \* 'must be numeric'
  ELSE IF ~LoOp(f, D(f).lo_closed, v.p) THEN "err"           \* bound test
  ELSE IF D(f).shape = "win" /\ ~HiLt(f, v.p) THEN "err"     \* second bound of _test_value_within_bounds
  ELSE IF D(f).int /\ ~IntOk(f, v.p) THEN "err"              \* 'must be an integer'
  ELSE "ok"
\* _test_range (lines 231-282); `upper is float('inf')` is never true for two distinct float objects, so the
\* bound failure always raises
RangeCheck(f, v0) ==
  LET v == Resolve(f, v0) IN
  IF v.tag = "tok" /\ v.p = "none" THEN "ok"                 \* optional and not specified
  ELSE IF v.tag # "pair" \/ ~Num(v.p) \/ ~Num(v.q) THEN "err"   \* 'requires a range of two numbers'
  ELSE IF ~(LoOp(f, D(f).lo_closed, v.p) /\ HiLt(f, v.q)) THEN "err"
  ELSE IF ~(CmpOk(v.p) /\ CmpOk(v.q) /\ (IF D(f).strict THEN Pos(f, v.p) < Pos(f, v.q) ELSE Pos(f, v.p) <= Pos(f, v.q)))
       THEN "err"                                            \* 'Lower bound of .. must be < / <= upper bound'
  ELSE IF D(f).int /\ ~(Integral(f, v.p) /\ Integral(f, v.q)) THEN "err"
  ELSE "ok"

Advance(res) == IF res = "ok" THEN k' = k + 1 /\ UNCHANGED status ELSE status' = "raised" /\ UNCHANGED k
CheckThreshold == /\ status = "checking" /\ k <= NF /\ D(CheckOrder[k]).shape = "thr"
                  /\ Advance(ScalarCheck(CheckOrder[k], obj[CheckOrder[k]])) /\ UNCHANGED cs
CheckWithin ==    /\ status = "checking" /\ k <= NF /\ D(CheckOrder[k]).shape = "win"
                  /\ Advance(ScalarCheck(CheckOrder[k], obj[CheckOrder[k]])) /\ UNCHANGED cs
CheckRange ==     /\ status = "checking" /\ k <= NF /\ D(CheckOrder[k]).shape = "rng"
                  /\ Advance(RangeCheck(CheckOrder[k], obj[CheckOrder[k]])) /\ UNCHANGED cs
Finish == status = "checking" /\ k > NF /\ status' = "done" /\ UNCHANGED <<cs, k>>
Next == CheckThreshold \/ CheckWithin \/ CheckRange \/ Finish
Spec == Init /\ [][Next]_vars

\* ---------------------------------------------------------------- properties
TypeOK == status \in {"checking", "done", "raised", "header"} /\ k \in 1..(NF + 1)
RefinesContract == /\ (status = "done" => ObjVerdict(obj) # "reject")
                   /\ (status = "raised" => ObjVerdict(obj) # "accept")
\* the check that raises is the first one (in the code's order) whose field is not plainly acceptable
FirstFailing == status = "raised" =>
                  /\ Verdict(CheckOrder[k], obj[CheckOrder[k]]) # "accept"
                  /\ \A j \in 1..(k - 1) : Verdict(CheckOrder[j], obj[CheckOrder[j]]) # "reject"
\* a second fault never rescues a first
DoubleFaultRejected == (cs.kind = "double" /\ status # "checking") => status = "raised"
DefaultsAccepted == (cs.kind \in {"defaults", "eq"} /\ status # "checking") => status = "done"

\* ---------------------------------------------------------------- cases for the replayer
PointInfo(f) == [p \in PointsOf(f) |-> [pos |-> Pos(f, p), kind |-> NumKind(p), integral |-> Integral(f, p),
                                       in_domain |-> InDomain(f, p), int_typed |-> IntTyped(f, p)]]
Header == [kind |-> "header", fields |-> FieldTable, check_order |-> CheckOrder,
           points |-> [f \in Fields |-> PointInfo(f)],
           full |-> BaseObj("full"), defaults |-> BaseObj("defaults")]
Emit ==
  /\ (status = "header") => PrintT(ToJson(Header))
  /\ (status \in {"done", "raised"}) =>
       PrintT(ToJson([kind |-> cs.kind, base |-> cs.base, ch |-> cs.ch, verdict |-> ObjVerdict(obj),
                      impl |-> status, first_fail |-> IF status = "raised" THEN D(CheckOrder[k]).name ELSE "-",
                      base2 |-> cs.base2, ch2 |-> cs.ch2, equal |-> (cs.kind = "eq" /\ ObjEq(obj, obj2))]))
=============================================================================
