----------------------------- MODULE MMStepTrace -----------------------------
(***************************************************************************)
(* Step-level trace validation of exhaustive_search() (code -> spec), the  *)
(* binding of the implementation-shaped model MMImplX.tla to the code.     *)
(*                                                                         *)
(* With the hooks of /repo enabled (GOOGLE_MATCHED_MARKETS_VERIF=1) the    *)
(* search emits one event per decision of its nested loop:                 *)
(*   trt  <<T, verdict>>   share | pattern | high_saved | low | eval       *)
(*   ctl  <<T, C, verdict>>  volume | budget | push                        *)
(* This module replays the recorded event list of every instance against   *)
(* the loop of MMImplX - now with the REAL tables of the instance (oracle   *)
(* optimistic-budget classes, budget verdicts, integer share weights)      *)
(* instead of abstract families - and reports, per instance, the clauses   *)
(* the events do not satisfy:                                              *)
(*   STEP:*  the code took a step the model does not take (drift; reported *)
(*           as a note, never as a property violation: an enumeration      *)
(*           order or a pruning decision is not a listed property)         *)
(*   C11:EvaluatedWithinCount  the designs the search evaluated are        *)
(*           generated pairs, at most count_max_designs() many             *)
(***************************************************************************)
EXTENDS MMDefs, SequencesExt, Json, IOUtils, TLCExt

Data == JsonDeserialize(IOEnv.TRACE_FILE)
Insts == Data.instances
NI == Len(Insts)

VARIABLES tid
vars == <<tid>>

\* ---------------------------------------------------------------- the generators over the admitted geos
CtlSizes(I, X, nt) ==
  LET lo == Max2(1, Cardinality({g \in X.adm : I.elig[g] = "c"}))
      hi == Cardinality(X.cc)
      rng == IF I.cr[2] = 0 THEN lo..hi ELSE Max2(I.cr[1], lo)..Min2(I.cr[2], hi)
  IN {nc \in rng : RatioOK(nc, nt, I.gtol)}
TrtGroups(I, X, n) == {S \in SUBSET X.tt : X.tf \subseteq S /\ Cardinality(S) = n}
CtlGroups(I, X, T) ==
  LET fixed == {g \in X.adm : I.elig[g] = "c"} \cup ({g \in X.adm : I.elig[g] = "ct"} \ T)
      pool == X.cc \ T
  IN {C \in SUBSET pool : fixed \subseteq C /\ C # {} /\ Cardinality(C) \in CtlSizes(I, X, Cardinality(T))}
Generated(I, X) == UNION {UNION {{<<T, C>> : C \in CtlGroups(I, X, T)} : T \in TrtGroups(I, X, n)} : n \in X.sizes}

\* ---------------------------------------------------------------- replay
Ev(I) == I.events
IsTrt(e) == e.e = "trt"
TSet(e) == SeqToSet(e.t)
CSet(e) == SeqToSet(e.c)
TrtIdx(I) == {i \in 1..Len(Ev(I)) : IsTrt(Ev(I)[i])}
LastSize(X) == Max(X.sizes)
\* over-budget treatment groups remembered before event i (tbrmatchedmarkets.py skip_treatment_geo_patterns)
Patterns(I, i) == {TSet(Ev(I)[j]) : j \in {k \in 1..(i - 1) : IsTrt(Ev(I)[k]) /\ Ev(I)[k].v = "high_saved"}}
ExpectedTrt(I, X, i) ==
  LET T == TSet(Ev(I)[i])
  IN IF HasShare(I) /\ ~ShareIn(I, T, X.wG) THEN "share"
     ELSE IF ~HasShare(I) /\ \E p \in Patterns(I, i) : p \subseteq T THEN "pattern"
     ELSE IF I.hasBudget /\ I.opt[Mask(T)] = 2 /\ Cardinality(T) # LastSize(X) THEN "high_saved"
     ELSE IF I.hasBudget /\ I.opt[Mask(T)] = 1 THEN "low"
     ELSE "eval"
ExpectedCtl(I, T, C) ==
  IF ~VolumeOK(I, T, C) THEN "volume"
  ELSE IF I.hasBudget /\ ~I.budgetOK[Code(T, C)] THEN "budget"
  ELSE "push"
\* the ctl events that follow trt event i up to the next trt event
CtlAfter(I, i) == {j \in (i + 1)..Len(Ev(I)) : ~IsTrt(Ev(I)[j]) /\ \A k \in (i + 1)..j : ~IsTrt(Ev(I)[k])}

Step(I) ==
  LET X == Ctx(I)
      E == Ev(I)
      ti == TrtIdx(I)
      wellFormed == \A i \in ti : TSet(E[i]) # {} /\ TSet(E[i]) \subseteq Geos(I)
      sizesOf == {Cardinality(TSet(E[i])) : i \in ti}
      allT == {TSet(E[i]) : i \in ti}
      gen == Generated(I, X)
      ctlPairs == {<<TSet(E[j]), CSet(E[j])>> : j \in (1..Len(E)) \ ti}
  IN (IF ~wellFormed THEN {"STEP:EventsWellFormed"} ELSE
      (IF \E i, j \in ti : i < j /\ Cardinality(TSet(E[i])) > Cardinality(TSet(E[j])) THEN {"STEP:SizesAscending"} ELSE {})
      \cup (IF ~I.started /\ I.exh.status = "ok" /\ X.sizes # {} THEN {"STEP:StartsWhenSizesExist"} ELSE {})
      \cup (IF I.started /\ sizesOf # {} /\ ~(sizesOf \subseteq X.sizes) THEN {"STEP:SizesInRange"} ELSE {})
      \cup (IF I.started /\ allT # UNION {TrtGroups(I, X, n) : n \in X.sizes} THEN {"STEP:EveryTreatmentGroupVisited"} ELSE {})
      \cup (IF Cardinality(allT) # Cardinality(ti) THEN {"STEP:TreatmentGroupVisitedOnce"} ELSE {})
      \cup (IF \E i \in ti : E[i].v # ExpectedTrt(I, X, i) THEN {"STEP:TreatmentVerdict"} ELSE {})
      \cup (IF \E i \in ti : E[i].v = "eval" /\
                 {CSet(E[j]) : j \in CtlAfter(I, i)} # CtlGroups(I, X, TSet(E[i])) THEN {"STEP:ControlGroupsOfTreatment"} ELSE {})
      \cup (IF \E i \in ti : E[i].v # "eval" /\ CtlAfter(I, i) # {} THEN {"STEP:NoControlGroupsAfterSkip"} ELSE {})
      \cup (IF \E i \in ti : \E j \in CtlAfter(I, i) : TSet(E[j]) # TSet(E[i]) THEN {"STEP:ControlEventBelongsToTreatment"} ELSE {})
      \cup (IF \E j \in (1..Len(E)) \ ti : TSet(E[j]) # {} /\ CSet(E[j]) # {} /\ TSet(E[j]) \cap CSet(E[j]) = {} /\
                 E[j].v # ExpectedCtl(I, TSet(E[j]), CSet(E[j])) THEN {"STEP:ControlVerdict"} ELSE {})
      \cup (IF Cardinality(ctlPairs) # Len(E) - Cardinality(ti) THEN {"STEP:DesignEvaluatedOnce"} ELSE {})
      \* C11, last sentence: the count is an upper bound on the designs the exhaustive search evaluates
      \cup (IF ~(ctlPairs \subseteq gen) \/ (I.count >= 0 /\ Cardinality(ctlPairs) > I.count) THEN {"C11:EvaluatedWithinCount"} ELSE {})
      \cup (IF I.count >= 0 /\ I.count # Cardinality(gen) THEN {"C11:CountIsGeneratedPairs"} ELSE {}))

Judge(I) == [id |-> I.id, fails |-> SetToSeq(Step(I)),
             facts |-> [events |-> Len(Ev(I)), evaluated |-> Cardinality({j \in 1..Len(Ev(I)) : ~IsTrt(Ev(I)[j])})]]

Init == tid = 1
Next == /\ tid <= NI
        /\ PrintT(ToJson(Judge(Insts[tid])))
        /\ tid' = tid + 1
Spec == Init /\ [][Next]_vars
=============================================================================
