------------------------------ MODULE HeapDict ------------------------------
(***************************************************************************)
(* heapdict.HeapDict: a dictionary of bounded priority queues (C14).       *)
(*                                                                         *)
(* Items are <<value, tag>>: ordered by value only; tags make equal items  *)
(* distinguishable so that "the k largest, as a multiset" is meaningful.   *)
(* A queue is a set of <<item, serial>> so that the very same item pushed  *)
(* twice is kept twice.  `hist` is the push history (what the replayer      *)
(* feeds to the real object); it carries the same information as `pushed`  *)
(* and therefore adds no states.                                           *)
(*                                                                         *)
(* Push models heapdict.py:55-69: heappush while there is room, otherwise  *)
(* heappushpop = the new item enters and a minimum leaves *only if* the    *)
(* current minimum is strictly smaller than the new item.                  *)
(* GetResult models heapdict.py:71-80: a fresh dict, per touched key the   *)
(* queue in descending order; the queues themselves are untouched.         *)
(***************************************************************************)
EXTENDS Integers, Sequences, FiniteSets, TLC, FiniteSetsExt, SequencesExt, Json

CONSTANTS Keys, Vals, Tags, KMax, MaxPush

Items == Vals \X Tags
VARIABLES cap,      \* capacity per key (chosen in Init, constant afterwards)
          q,        \* key -> set of <<item, serial>>
          pushed,   \* key -> set of <<item, serial>> ever pushed
          hist,     \* sequence of <<key, item>>
          out       \* last get_result(): <<>> (none) or key -> sequence of entries
vars == <<cap, q, pushed, hist, out>>
n == Len(hist)

Init == /\ cap \in 0..KMax
        /\ q = [k \in Keys |-> {}] /\ pushed = [k \in Keys |-> {}]
        /\ hist = <<>> /\ out = <<>>

Val(e) == e[1][1]
MinVal(S) == Min({Val(e) : e \in S})

Push(k, it) ==
  /\ n < MaxPush
  /\ LET e == <<it, n + 1>>
     IN /\ pushed' = [pushed EXCEPT ![k] = @ \cup {e}]
        /\ IF Cardinality(q[k]) < cap
           THEN q' = [q EXCEPT ![k] = @ \cup {e}]
           ELSE IF q[k] # {} /\ MinVal(q[k]) < it[1]
                THEN \E m \in q[k] : Val(m) = MinVal(q[k]) /\ q' = [q EXCEPT ![k] = (@ \ {m}) \cup {e}]
                ELSE q' = q
  /\ hist' = Append(hist, <<k, it>>)
  /\ out' = <<>> /\ UNCHANGED cap

IsDescSeqOf(s, S) == /\ Len(s) = Cardinality(S)
                     /\ {s[i] : i \in 1..Len(s)} = S
                     /\ \A i \in 1..(Len(s) - 1) : Val(s[i]) >= Val(s[i + 1])
Touched == {k \in Keys : pushed[k] # {}}
\* any descending arrangement is allowed (ties in any order)
GetResult == /\ out' \in [Touched -> UNION {[1..m -> Items \X (1..MaxPush)] : m \in 0..KMax}]
             /\ \A k \in Touched : IsDescSeqOf(out'[k], q[k])
             /\ UNCHANGED <<cap, q, pushed, hist>>
\* cheaper variant used for exhaustive runs: one canonical arrangement
Canon(S) == SetToSortSeq(S, LAMBDA a, b : Val(a) > Val(b) \/ (Val(a) = Val(b) /\ a[2] < b[2]))
GetResultCanon == /\ out' = [k \in Touched |-> Canon(q[k])]
                  /\ UNCHANGED <<cap, q, pushed, hist>>

Next == (\E k \in Keys, it \in Items : Push(k, it)) \/ GetResultCanon
Spec == Init /\ [][Next]_vars

\* ------------------------------------------------------------------ properties
\* exactly the cap largest pushed items, as a multiset of values (ties: any choice)
TopK == \A k \in Keys :
          /\ q[k] \subseteq pushed[k]
          /\ Cardinality(q[k]) = (IF Cardinality(pushed[k]) < cap THEN Cardinality(pushed[k]) ELSE cap)
          /\ \A a \in q[k], b \in pushed[k] \ q[k] : Val(a) >= Val(b)
OutOK == out # <<>> => /\ DOMAIN out = Touched
                       /\ \A k \in Touched : IsDescSeqOf(out[k], q[k])
\* reading does not change the container
ReadOnly == [][(out' # <<>>) => UNCHANGED <<q, pushed, hist>>]_vars
\* the multiset of values the contract demands for key k: how often each value occurs among the kept items
Counts(S) == [v \in Vals |-> Cardinality({e \in S : Val(e) = v})]
\* one JSON line per state without a pending read: the history and the demanded top-k values per key
Emit == (out = <<>>) =>
  PrintT(ToJson([cap |-> cap,
                 hist |-> [i \in 1..n |-> [key |-> hist[i][1], val |-> hist[i][2][1], tag |-> hist[i][2][2]]],
                 want |-> [k \in Keys |-> [touched |-> (k \in Touched), counts |-> Counts(q[k])]]]))
=============================================================================
