------------------------------- MODULE MMImplX -------------------------------
(***************************************************************************)
(* Implementation-shaped model of TBRMatchedMarkets.exhaustive_search()    *)
(* (tbrmatchedmarkets.py:310-435), design level: ALL instances over N geos *)
(* with abstract score / budget tables, so TLC searches the design for a   *)
(* bad state (crash, illegal or out-of-range design pushed, feasible       *)
(* design lost, heap not the top k).                                       *)
(*                                                                         *)
(* One action per critical section of the code:                            *)
(*   Start        geos_within_constraints + n_geos_max truncation, the     *)
(*                treatment size range, `list(range).pop()`                *)
(*   ProcessSize  one iteration of the outer loop over treatment sizes:    *)
(*                pattern check, optimistic budget screen ("save pattern   *)
(*                unless last size"), control groups, per-design budget    *)
(*                check, push into the bounded heap                        *)
(* Fixes \subseteq {"D4", "D7", "D13"} switches the repairs made in /repo  *)
(* (fix: commits 88a4505, 7389ef5, eaff290) so that the pre-repair design  *)
(* can still be shown to admit the bad states.                             *)
(***************************************************************************)
EXTENDS Integers, Sequences, FiniteSets, TLC, FiniteSetsExt

CONSTANTS N, Fixes,
          TRs, CRs, GTols,        \* families of size ranges / geo-ratio tolerances explored
          NMaxs, TooLarges, KCaps, RankFams, OptFams, Budgets

Geos == 1..N
Classes == {"x", "t", "c", "ctx", "tx", "cx", "ct", "absent"}
CanC(cl) == cl \in {"c", "ctx", "cx", "ct"}
CanT(cl) == cl \in {"t", "ctx", "tx", "ct"}
CanX(cl) == cl \in {"x", "ctx", "tx", "cx", "absent"}

VARIABLES elig, tr, cr, gtol, nmax, tooLarge, kcap, rankFam, optFam, hasBudget,   \* the instance
          pc, sizes, patterns, heap, pushed
inst == <<elig, tr, cr, gtol, nmax, tooLarge, kcap, rankFam, optFam, hasBudget>>
vars == <<inst, pc, sizes, patterns, heap, pushed>>

Pow3(g) == IF g = 1 THEN 1 ELSE IF g = 2 THEN 3 ELSE IF g = 3 THEN 9 ELSE IF g = 4 THEN 27 ELSE 81
Code(T, C) == 1 + FoldSet(LAMBDA g, acc : acc + (IF g \in T THEN 1 ELSE 2) * Pow3(g), 0, T \cup C)
\* abstract score tables: all distinct / all tied / three levels
Rank(d) == CASE rankFam = 1 -> Code(d[1], d[2])
             [] rankFam = 2 -> 1
             [] OTHER -> Code(d[1], d[2]) % 3
\* abstract optimistic-budget tables: all ok / groups containing geo 1 too expensive / singletons too cheap
Opt(T) == CASE optFam = 1 -> "ok"
            [] optFam = 2 -> IF 1 \in T THEN "high" ELSE "ok"
            [] OTHER -> IF Cardinality(T) = 1 THEN "low" ELSE "ok"
BudgetOK(d) == (~hasBudget) \/ (Code(d[1], d[2]) % 4 # 0)

Assignable == {g \in Geos : elig[g] \notin {"x", "absent"}}
MustInclude == {g \in Geos : elig[g] \in {"t", "c", "ct"}}
Admitted0 == (Assignable \ tooLarge) \cup MustInclude
\* impact order abstracted as descending geo number = "small geos first" (adversarial for D7)
TruncKey(g) == IF "D7" \in Fixes /\ g \in MustInclude THEN 0 ELSE N + 1 - g
Admitted == IF nmax > 0 /\ Cardinality(Admitted0) > nmax
            THEN CHOOSE S \in SUBSET Admitted0 :
                   /\ Cardinality(S) = nmax
                   /\ \A a \in S, b \in Admitted0 \ S : TruncKey(a) < TruncKey(b) \/ (TruncKey(a) = TruncKey(b) /\ a < b)
            ELSE Admitted0
Cls(c) == {g \in Admitted : elig[g] = c}
TF == Cls("t")  CF == Cls("c")  CT == Cls("ct")  CX == Cls("cx")  TX == Cls("tx")  CTX == Cls("ctx")
TT == TF \cup CT \cup TX \cup CTX
CC == CF \cup CT \cup CX \cup CTX
Max2(a, b) == IF a > b THEN a ELSE b
Min2(a, b) == IF a < b THEN a ELSE b
TrtSizes == LET lo == Max2(tr[1], Max2(1, Cardinality(TF)))
                hi == Min2(tr[2], Cardinality(TT) - (IF CX \cup CF = {} THEN 1 ELSE 0))
            IN lo..hi
RatioOK(nc, nt) == gtol[2] = 0 \/ (nc * gtol[2] <= nt * (gtol[1] + gtol[2]) /\ nt * gtol[2] <= nc * (gtol[1] + gtol[2]))
CtlSizes(nt) == {nc \in Max2(cr[1], Max2(1, Cardinality(CF)))..Min2(cr[2], Cardinality(CC)) : RatioOK(nc, nt)}
KSub(S, k) == {s \in SUBSET S : Cardinality(s) = k}
TrtGroups(n) == LET r == n - Cardinality(TF)
                IN IF r = 0 /\ TF # {} THEN {TF} ELSE IF r > 0 THEN {TF \cup s : s \in KSub(TT \ TF, r)} ELSE {}
CtlGroups(T) == LET fc == CF \cup (CT \ T)
                    vary == (CC \ T) \ fc
                IN UNION {LET r == nc - Cardinality(fc)
                          IN IF r = 0 /\ fc # {} THEN {fc} ELSE IF r > 0 THEN {fc \cup s : s \in KSub(vary, r)} ELSE {}
                          : nc \in CtlSizes(Cardinality(T))}

\* ---------------------------------------------------------------- contract side (as in MMDefs.tla)
Legal(T, C) == /\ T # {} /\ C # {} /\ T \cap C = {}
               /\ \A g \in T : CanT(elig[g])
               /\ \A g \in C : CanC(elig[g])
               /\ \A g \in Geos \ (T \cup C) : CanX(elig[g])
SizesOK(T, C) == /\ tr[1] <= Cardinality(T) /\ Cardinality(T) <= tr[2]
                 /\ cr[1] <= Cardinality(C) /\ Cardinality(C) <= cr[2]
                 /\ RatioOK(Cardinality(C), Cardinality(T))
AdmissibleTrt(S) == TF \subseteq S /\ S \subseteq TT /\ Cardinality(S) \in TrtSizes
Omittable(T) == hasBudget /\ (Opt(T) # "ok" \/ \E S \in SUBSET T : S # T /\ S # {} /\ AdmissibleTrt(S) /\ Opt(S) # "ok")
MayReject == nmax > 0 /\ Cardinality(MustInclude) > nmax

\* ---------------------------------------------------------------- the loop
Init == /\ elig \in [Geos -> Classes]
        /\ tr \in TRs /\ cr \in CRs /\ gtol \in GTols
        /\ nmax \in NMaxs /\ tooLarge \in TooLarges /\ kcap \in KCaps
        /\ rankFam \in RankFams /\ optFam \in OptFams /\ hasBudget \in Budgets
        /\ pc = "start" /\ sizes = <<>> /\ patterns = {} /\ heap = {} /\ pushed = {}
SeqOfRange(S) == [i \in 1..Cardinality(S) |-> CHOOSE x \in S : Cardinality({y \in S : y < x}) = i - 1]
Start == /\ pc = "start"
         /\ IF "D7" \in Fixes /\ MayReject THEN pc' = "valueerror" /\ UNCHANGED sizes
            ELSE IF Admitted = {} /\ "D13" \notin Fixes THEN pc' = "valueerror" /\ UNCHANGED sizes
            ELSE IF TrtSizes = {} THEN (IF "D4" \in Fixes THEN pc' = "done" ELSE pc' = "crash") /\ UNCHANGED sizes
            ELSE pc' = "size" /\ sizes' = SeqOfRange(TrtSizes)
         /\ UNCHANGED <<inst, patterns, heap, pushed>>
\* HeapDict.push for a batch: keeps the kcap largest ranks (ties: any choice; see HeapDict.tla)
PushAll(h, ds) ==
  LET all == h \cup ds
  IN IF Cardinality(all) <= kcap THEN {all}
     ELSE {S \in SUBSET all : /\ Cardinality(S) = kcap
                              /\ \A a \in S, b \in all \ S : Rank(a) >= Rank(b)}
LastSize == sizes[Len(sizes)]
ProcessSize ==
  /\ pc = "size" /\ Len(sizes) > 0
  /\ LET n == Head(sizes)
         save == (n # LastSize)
         groups == TrtGroups(n)
         skipped == {T \in groups : hasBudget /\ \E p \in patterns : p \subseteq T}
         live == groups \ skipped
         high == {T \in live : hasBudget /\ Opt(T) = "high"}
         low == {T \in live : hasBudget /\ Opt(T) = "low"}
         evalT == IF save THEN live \ (high \cup low) ELSE live \ low
         ds == {d \in UNION {{<<T, C>> : C \in CtlGroups(T)} : T \in evalT} : BudgetOK(d)}
     IN /\ patterns' = IF save THEN patterns \cup high ELSE patterns
        /\ heap' \in PushAll(heap, ds)
        /\ pushed' = pushed \cup ds
        /\ sizes' = Tail(sizes)
        /\ pc' = IF Len(sizes) = 1 THEN "done" ELSE "size"
  /\ UNCHANGED inst
Next == Start \/ ProcessSize
Spec == Init /\ [][Next]_vars /\ WF_vars(Next)

\* ---------------------------------------------------------------- staged choice of the instance (simulation mode)
\* TLC's simulator has to enumerate the initial states; for four geos that set is too large.  The staged variant picks
\* the eligibility class geo by geo and then the parameters, so that every step has few successors; after "params"
\* the behaviour is exactly Spec's.
PickName(g) == "pick" \o ToString(g)
InitStaged == /\ elig = [g \in Geos |-> "absent"]
              /\ tr = (CHOOSE x \in TRs : TRUE) /\ cr = (CHOOSE x \in CRs : TRUE) /\ gtol = (CHOOSE x \in GTols : TRUE)
              /\ nmax = (CHOOSE x \in NMaxs : TRUE) /\ tooLarge = (CHOOSE x \in TooLarges : TRUE)
              /\ kcap = (CHOOSE x \in KCaps : TRUE) /\ rankFam = (CHOOSE x \in RankFams : TRUE)
              /\ optFam = (CHOOSE x \in OptFams : TRUE) /\ hasBudget = (CHOOSE x \in Budgets : TRUE)
              /\ pc = PickName(1) /\ sizes = <<>> /\ patterns = {} /\ heap = {} /\ pushed = {}
Pick == \E g \in Geos : /\ pc = PickName(g)
                        /\ \E cl \in Classes : elig' = [elig EXCEPT ![g] = cl]
                        /\ pc' = IF g = N THEN "params" ELSE PickName(g + 1)
                        /\ UNCHANGED <<tr, cr, gtol, nmax, tooLarge, kcap, rankFam, optFam, hasBudget, sizes, patterns, heap, pushed>>
Params == /\ pc = "params"
          /\ tr' \in TRs /\ cr' \in CRs /\ gtol' \in GTols /\ nmax' \in NMaxs /\ tooLarge' \in TooLarges
          /\ kcap' \in KCaps /\ rankFam' \in RankFams /\ optFam' \in OptFams /\ hasBudget' \in Budgets
          /\ pc' = "start"
          /\ UNCHANGED <<elig, sizes, patterns, heap, pushed>>
SpecStaged == InitStaged /\ [][Pick \/ Params \/ Next]_vars

\* ---------------------------------------------------------------- properties
NoCrash == pc # "crash"                                    \* C09
PushedLegal == \A d \in pushed : Legal(d[1], d[2])         \* C01
PushedSizesOK == \A d \in pushed : SizesOK(d[1], d[2])     \* C02 (integer-valued constraints)
PushedBudgetOK == \A d \in pushed : BudgetOK(d)            \* C02 (budget)
\* C03: every legal, size-admissible, within-budget design over the admitted geos is evaluated unless the
\* property's budget licence allows omitting it
Complete == (pc = "done") =>
              \A T \in SUBSET Admitted, C \in SUBSET Admitted :
                 (Legal(T, C) /\ SizesOK(T, C) /\ BudgetOK(<<T, C>>) /\ ~Omittable(T)) => <<T, C>> \in pushed
\* C03 / C14: the heap is the k best of what was evaluated
TopK == (pc = "done") => /\ heap \subseteq pushed
                         /\ Cardinality(heap) = Min2(kcap, Cardinality(pushed))
                         /\ \A a \in heap, b \in pushed \ heap : Rank(a) >= Rank(b)
RejectsOnlyUnsatisfiable == (pc = "valueerror") => (MayReject \/ Admitted = {})
Terminates == <>(pc \in {"done", "valueerror", "crash"})
=============================================================================
