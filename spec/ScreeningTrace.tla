-------------------------- MODULE ScreeningTrace --------------------------
(***************************************************************************)
(* Trace validation (direction T) for property C19: decides, for each      *)
(* recorded execution of the real TBRDiagnostics.fit(), whether it is a    *)
(* behaviour of the contract of Screening.tla.                             *)
(*                                                                         *)
(* IOEnv.TRACE_FILE is a JSON file  {"traces": [t1, t2, ...]}; one trace   *)
(* is one call of fit() on one presentation of one abstract instance:      *)
(*   tid        global number of the trace                                 *)
(*   inst       id of the abstract instance                                *)
(*   base       position (in this file) of the reference presentation of   *)
(*              the same instance (the trace's own position for the        *)
(*              reference itself)                                          *)
(*   rows       the frame given to fit(), in the presented order; rows are *)
(*              records [id, geo, grp, date, period, value] as in          *)
(*              Screening.tla (geo index, grp "c"/"t"/"u", date ordinal,   *)
(*              period 0/1/2, integer value)                               *)
(*   none       get_test_results()['noisy_geos'] is None                   *)
(*   noisy      the reported noisy geos (geo indices; 0 = not a geo of the *)
(*              frame)                                                     *)
(*   outliers   the reported outlier dates (date ordinals)                 *)
(*   data       the rows of get_data(), in the returned order              *)
(*   analysis   get_analysis_data() as records [date, period, x, y]        *)
(*   unchanged  the caller's frame compared equal to its snapshot          *)
(*                                                                         *)
(* The judgement uses the SAME operators as the design-level model         *)
(* (ScreenedOf, TotalsOf through INSTANCE Screening).  One Next step       *)
(* consumes one trace and prints a JSON verdict {"tid", "verdict"}:        *)
(* "ok", or the name of the first clause that rejects.  A rejection does   *)
(* not stop the batch.                                                     *)
(***************************************************************************)
EXTENDS Integers, Sequences, FiniteSets, TLC, Json, IOUtils, TLCExt, SequencesExt

Data == JsonDeserialize(IOEnv.TRACE_FILE)
Traces == Data.traces
NT == Len(Traces)

\* the contract operators of the design-level module; its constants and variables are not used here
C == INSTANCE Screening WITH MaxGeos <- 0, MaxDates <- 0, MinGeos <- 0, MinObs <- 0, MaxMissing <- 0,
                             Variant <- "asis", input <- <<>>, caller <- <<>>, data <- <<>>,
                             analysis <- {}, S <- {}, D <- <<>>, corr <- FALSE, pc <- ""

VARIABLES tid,        \* position of the next trace to judge
          rejected    \* number of traces rejected so far
vars == <<tid, rejected>>

NoisySet(t) == IF t.none THEN {} ELSE ToSet(t.noisy)
DateSet(t) == ToSet(t.outliers)
Screened(t) == C!ScreenedOf(t.rows, NoisySet(t), DateSet(t))
Ids(rows) == {rows[j].id : j \in 1..Len(rows)}

\* ---- the clauses of the contract
\* "The caller's frame is not modified"
CallerFrameUnchanged(t) == t.unchanged
\* "the screened data equal the input rows minus every row of the reported noisy geos and of the
\*  reported outlier dates": equal as sequences of full rows (same rows, same values, same order)
ScreenedExact(t) == t.data = Screened(t)
\* "the aggregated analysis series equal the per-date control and treatment totals of the screened
\*  data": one record per date, any order of the records
\*  A group without a single screened row on a date has no total there: the series may say 0 or "not a number" (NA),
\*  but the date itself and the other group's total must be reported.
NA == -999999998
HasRow(rows, g, a) == \E j \in 1..Len(rows) : rows[j].grp = g /\ rows[j].date = a.date /\ rows[j].period = a.period
Settle(rows, a) == [a EXCEPT !.x = IF a.x = NA /\ ~HasRow(rows, "c", a) THEN 0 ELSE a.x,
                             !.y = IF a.y = NA /\ ~HasRow(rows, "t", a) THEN 0 ELSE a.y]
AnalysisExact(t) == LET scr == Screened(t)
                    IN /\ {Settle(scr, t.analysis[j]) : j \in 1..Len(t.analysis)} = C!TotalsOf(scr)
                       /\ Len(t.analysis) = Cardinality({<<t.analysis[j].date, t.analysis[j].period>> : j \in 1..Len(t.analysis)})
\* "the reported results do not depend on input row order" (nor on column names / labels): the
\* abstract report equals that of the reference presentation of the same instance
SameReport(t, b) == /\ t.none = b.none
                    /\ NoisySet(t) = NoisySet(b)
                    /\ DateSet(t) = DateSet(b)
                    /\ ToSet(t.analysis) = ToSet(b.analysis)

\* ---- a total verdict: the first rejecting clause, refined for ScreenedExact so that the name says how
Verdict(t) ==
  IF ~CallerFrameUnchanged(t) THEN "CallerFrameUnchanged"
  ELSE IF ~ScreenedExact(t)
       THEN IF \E j \in 1..Len(t.data) : ~C!Kept(t.data[j], NoisySet(t), DateSet(t))
            THEN "ScreenedExact.ReportedRowStillPresent"
            ELSE IF ~(Ids(Screened(t)) \subseteq Ids(t.data))
                 THEN "ScreenedExact.UnreportedRowRemoved"
                 ELSE IF ToSet(t.data) = ToSet(Screened(t)) /\ Len(t.data) = Len(Screened(t))
                      THEN "ScreenedExact.RowOrderChanged"
                      ELSE "ScreenedExact.RowsAltered"
       ELSE IF ~AnalysisExact(t) THEN "AnalysisExact"
            ELSE IF ~SameReport(t, Traces[t.base]) THEN "SameReportAcrossPresentations"
                 ELSE "ok"

Init == tid = 1 /\ rejected = 0
Next == /\ tid <= NT
        /\ LET v == Verdict(Traces[tid])
           IN /\ PrintT(ToJson([tid |-> Traces[tid].tid, verdict |-> v]))
              /\ rejected' = rejected + (IF v = "ok" THEN 0 ELSE 1)
        /\ tid' = tid + 1
Spec == Init /\ [][Next]_vars

\* every trace of the file got a verdict (the behaviour has NT + 1 states)
AllJudged == IF TLCGet("stats").diameter = NT + 1 THEN TRUE
             ELSE PrintT(<<"NOT ALL TRACES JUDGED", TLCGet("stats").diameter, NT>>) /\ FALSE
=============================================================================
