----------------------------- MODULE Screening -----------------------------
(***************************************************************************)
(* TBRDiagnostics.fit (property C19): post-analysis data screening removes *)
(* exactly what it reports.                                                *)
(*                                                                         *)
(* A frame is a SEQUENCE of rows (row order is part of the input).  A row  *)
(* is a record  [id, geo, grp, date, period, value]:                       *)
(*   id     position of the row in the caller's frame (1..n, unique)       *)
(*   geo    geo index 1..ng                                                *)
(*   grp    "c" control | "t" treatment | "u" anything else (unassigned)   *)
(*   date   date ordinal                                                   *)
(*   period 0 pre-test | 1 test | 2 cooldown                               *)
(*   value  integer response                                               *)
(*                                                                         *)
(* The first part of the module is the CONTRACT: pure operators over       *)
(* frames, used both by the invariants below and (through INSTANCE) by     *)
(* ScreeningTrace.tla, which judges recorded executions of the real code.  *)
(* The second part is the implementation-shaped pipeline: one action per   *)
(* step of fit().  WHICH geos are noisy and WHICH dates are outliers is    *)
(* numeric and deliberately not specified: the two detector actions answer *)
(* nondeterministically, and TLC explores every answer.                    *)
(***************************************************************************)
EXTENDS Integers, Sequences, FiniteSets, TLC, FiniteSetsExt, SequencesExt

CONSTANTS MaxGeos,     \* geos 1..ng, ng \in 2..MaxGeos
          MaxDates,    \* dates 1..nd, nd \in 1..MaxDates
          MinGeos,     \* _detect_noisy_geos answers None below this many geos (4 in the code)
          MinObs,      \* _min_correlation_threshold raises below this many dates (4 in the code)
          MaxMissing,  \* at most this many (geo, date) cells have no row (unbalanced panel)
          Variant      \* "asis" or the name of a seeded design error (sensitivity runs only)

VARIABLES input,     \* the frame as the caller passed it (chosen in Init, never changes)
          caller,    \* the caller's frame object as it is now
          data,      \* self._data
          analysis,  \* self._analysis_data: a set of [date, period, x, y]
          S,         \* diagnostics['noisy_geos']:   [none : BOOLEAN, geos : SUBSET geos]
          D,         \* diagnostics['outlier_dates']: a sequence of dates
          corr,      \* diagnostics['corr_test']
          pc
vars == <<input, caller, data, analysis, S, D, corr, pc>>

\* ======================================================================== contract
\* rows removed because of the report (a report of None removes nothing)
Kept(r, noisy, dates) == r.geo \notin noisy /\ r.date \notin dates
\* Screened = Input minus rows(S) minus rows(D): same rows, same relative order
ScreenedOf(rows, noisy, dates) == SelectSeq(rows, LAMBDA r : Kept(r, noisy, dates))

SumWhere(rows, P(_)) == FoldLeft(LAMBDA acc, r : IF P(r) THEN acc + r.value ELSE acc, 0, rows)
\* (date, period) keys of the rows that enter the aggregate; rows of other groups are dropped from
\* the aggregate (but stay in the screened data)
AggKeys(rows) == {<<rows[j].date, rows[j].period>> : j \in {i \in 1..Len(rows) : rows[i].grp \in {"c", "t"}}}
\* per-date control (x) and treatment (y) totals
TotalsOf(rows) ==
  {[date |-> k[1], period |-> k[2],
    x |-> SumWhere(rows, LAMBDA r : r.grp = "c" /\ r.date = k[1] /\ r.period = k[2]),
    y |-> SumWhere(rows, LAMBDA r : r.grp = "t" /\ r.date = k[1] /\ r.period = k[2])] : k \in AggKeys(rows)}
BothGroups(rows) == /\ \E j \in 1..Len(rows) : rows[j].grp = "c"
                    /\ \E j \in 1..Len(rows) : rows[j].grp = "t"
GeosOf(rows) == {rows[j].geo : j \in 1..Len(rows)}
DatesOf(rows) == {rows[j].date : j \in 1..Len(rows)}

\* ======================================================================== inputs
Pow2(n) == IF n = 0 THEN 1 ELSE IF n = 1 THEN 2 ELSE IF n = 2 THEN 4 ELSE IF n = 3 THEN 8 ELSE 16
\* value of cell (g, d): d * 2^(g-1) -- a per-date total identifies the set of geos that entered it
Cell(g, d, grp, per) == [geo |-> g, grp |-> grp[g], date |-> d, period |-> per[d], value |-> d * Pow2(g - 1)]

\* three presentations of the same panel: geo-major, date-major, geo-major reversed
CellOrder(ng, nd, order) ==
  LET n == ng * nd
      gm == [j \in 1..n |-> <<((j - 1) \div nd) + 1, ((j - 1) % nd) + 1>>]
      dm == [j \in 1..n |-> <<((j - 1) % ng) + 1, ((j - 1) \div ng) + 1>>]
  IN IF order = "geo" THEN gm ELSE IF order = "date" THEN dm ELSE Reverse(gm)

Frame(ng, nd, grp, per, missing, order) ==
  LET cells == SelectSeq(CellOrder(ng, nd, order), LAMBDA c : c \notin missing)
  IN [j \in 1..Len(cells) |-> [id |-> j] @@ Cell(cells[j][1], cells[j][2], grp, per)]

Monotone(per, nd) == \A a, b \in 1..nd : a <= b => per[a] <= per[b]

Init ==
  /\ \E ng \in 2..MaxGeos, nd \in 1..MaxDates :
       \E grp \in [1..ng -> {"c", "t", "u"}], per \in [1..nd -> 0..2], order \in {"geo", "date", "rev"} :
         \E missing \in {m \in SUBSET ((1..ng) \X (1..nd)) : Cardinality(m) <= MaxMissing} :
           /\ Monotone(per, nd)
           /\ input = Frame(ng, nd, grp, per, missing, order)
           /\ BothGroups(input)       \* the quantifier of the property: both groups present
  /\ caller = input
  /\ data = <<>> /\ analysis = {} /\ S = [none |-> TRUE, geos |-> {}] /\ D = <<>> /\ corr = FALSE
  /\ pc = "copy"

\* ======================================================================== the pipeline, one action per step of fit()
\* self._data = data_frame.copy()
Copy ==
  /\ pc = "copy"
  /\ data' = caller
  /\ pc' = "noisy"
  /\ UNCHANGED <<input, caller, analysis, S, D, corr>>

\* remove_geos = self._detect_noisy_geos(...): pivots the PRE-TEST rows by geo; fewer than MinGeos
\* geos there => None; otherwise some list of geo ids of that table (numeric: any subset).
\* (Every branch of the code is an action of its own, so that TLC's action coverage is branch coverage.)
PreGeos == GeosOf(SelectSeq(data, LAMBDA r : r.period = 0))
DetectNoisyNone ==
  /\ pc = "noisy" /\ Cardinality(PreGeos) < MinGeos
  /\ S' = [none |-> TRUE, geos |-> {}]
  /\ pc' = "rmgeos"
  /\ UNCHANGED <<input, caller, data, analysis, D, corr>>
DetectNoisySome ==
  /\ pc = "noisy" /\ Cardinality(PreGeos) >= MinGeos
  /\ \E s \in SUBSET PreGeos : S' = [none |-> FALSE, geos |-> s]
  /\ pc' = "rmgeos"
  /\ UNCHANGED <<input, caller, data, analysis, D, corr>>

\* if remove_geos: self._data = self._data[~ self._data[geo].isin(remove_geos)]
DropLast(set) == IF set = {} THEN {} ELSE set \ {Max(set)}
RemoveGeos ==
  /\ pc = "rmgeos" /\ ~S.none /\ S.geos # {}
  /\ LET gone == IF Variant = "all_but_last_geo" THEN DropLast(S.geos) ELSE S.geos
     IN data' = SelectSeq(data, LAMBDA r : r.geo \notin gone)
  /\ pc' = "agg1"
  /\ UNCHANGED <<input, caller, analysis, S, D, corr>>
KeepGeos ==      \* None and [] are both falsy
  /\ pc = "rmgeos" /\ (S.none \/ S.geos = {})
  /\ pc' = "agg1"
  /\ UNCHANGED <<input, caller, data, analysis, S, D, corr>>

\* self._create_analysis_data(): ValueError unless both group ids are present; pivot_table(sum)
Aggregate(next) ==
  /\ BothGroups(data)
  /\ analysis' = TotalsOf(data)
  /\ pc' = next
  /\ caller' = IF Variant = "inplace"   \* seeded error: relabels the group column of the caller's object
               THEN [j \in 1..Len(caller) |-> [caller[j] EXCEPT !.grp = "u"]] ELSE caller
  /\ UNCHANGED <<input, data, S, D, corr>>
AggregateRaises == ~BothGroups(data) /\ pc' = "error" /\ UNCHANGED <<input, caller, data, analysis, S, D, corr>>
Aggregate1 == pc = "agg1" /\ Aggregate("outliers")
Aggregate1Raises == pc = "agg1" /\ AggregateRaises

\* remove_dates = self._detect_outliers(...): first the correlation test (raises below MinObs
\* observations), then a list of index labels of the CURRENT analysis table, each at most once
\* (numeric: any such list, in any order, possibly empty).
DetectOutliers ==
  /\ pc = "outliers" /\ Cardinality(analysis) >= MinObs
  /\ \E d \in SetToAllKPermutations({a.date : a \in analysis}) : D' = d
  /\ pc' = "rmdates"
  /\ UNCHANGED <<input, caller, data, analysis, S, corr>>
DetectOutliersRaises ==
  /\ pc = "outliers" /\ Cardinality(analysis) < MinObs
  /\ pc' = "error"
  /\ UNCHANGED <<input, caller, data, analysis, S, D, corr>>

\* if remove_dates: self._data = self._data[~ self._data[date].isin(remove_dates)]; re-aggregate
RemoveDates ==
  /\ pc = "rmdates" /\ D # <<>>
  /\ IF Variant = "analysis_only_dates"
     THEN /\ analysis' = {a \in analysis : a.date \notin Range(D)}
          /\ pc' = "corr" /\ UNCHANGED data
     ELSE /\ data' = SelectSeq(data, LAMBDA r : r.date \notin Range(D))
          /\ pc' = IF Variant = "skip_reaggregate" THEN "corr" ELSE "agg2"
          /\ UNCHANGED analysis
  /\ UNCHANGED <<input, caller, S, D, corr>>
KeepDates ==
  /\ pc = "rmdates" /\ D = <<>>
  /\ pc' = "corr"
  /\ UNCHANGED <<input, caller, data, analysis, S, D, corr>>
Aggregate2 == pc = "agg2" /\ Aggregate("corr")
Aggregate2Raises == pc = "agg2" /\ AggregateRaises

\* diagnostics['corr_test'] = self._correlation_test(...): raises below MinObs observations
CorrTest ==
  /\ pc = "corr" /\ Cardinality(analysis) >= MinObs
  /\ pc' = "done" /\ corr' \in BOOLEAN
  /\ UNCHANGED <<input, caller, data, analysis, S, D>>
CorrTestRaises ==
  /\ pc = "corr" /\ Cardinality(analysis) < MinObs
  /\ pc' = "error"
  /\ UNCHANGED <<input, caller, data, analysis, S, D, corr>>

Next == \/ Copy
        \/ DetectNoisyNone \/ DetectNoisySome
        \/ RemoveGeos \/ KeepGeos
        \/ Aggregate1 \/ Aggregate1Raises
        \/ DetectOutliers \/ DetectOutliersRaises
        \/ RemoveDates \/ KeepDates
        \/ Aggregate2 \/ Aggregate2Raises
        \/ CorrTest \/ CorrTestRaises
Spec == Init /\ [][Next]_vars /\ WF_vars(Next)

\* ======================================================================== properties
TypeOK ==
  /\ pc \in {"copy", "noisy", "rmgeos", "agg1", "outliers", "rmdates", "agg2", "corr", "done", "error"}
  /\ S.none \in BOOLEAN /\ S.geos \subseteq GeosOf(input)
  /\ Range(D) \subseteq DatesOf(input) /\ Cardinality(Range(D)) = Len(D)
  /\ (S.none => S.geos = {})

Fitted == pc = "done"
\* get_data() = Input minus rows(S) minus rows(D), in input order
ScreenedExact == Fitted => data = ScreenedOf(input, S.geos, Range(D))
\* get_analysis_data() = per-date control / treatment totals of that
AnalysisExact == Fitted => analysis = TotalsOf(ScreenedOf(input, S.geos, Range(D)))
\* fit() never changes the frame it was given (at any step, also on the error path)
CallerFrameUnchanged == caller = input
\* what survives is a subsequence of the input: ids strictly increasing
InInputOrder == \A j \in 1..(Len(data) - 1) : data[j].id < data[j + 1].id
\* the aggregate never lags behind the data while a detector looks at it
AnalysisFresh == (pc \in {"outliers", "rmdates"}) => analysis = TotalsOf(data)
\* a successful fit leaves both groups and at least MinObs dates
FittedNonDegenerate == Fitted => BothGroups(data) /\ Cardinality(analysis) >= MinObs
Terminates == <>(pc \in {"done", "error"})

=============================================================================
