---------------------------- MODULE MMStepTraceG ----------------------------
(***************************************************************************)
(* Step-level trace validation of greedy_search() (code -> spec): the      *)
(* binding of the implementation-shaped model MMImplG.tla to the code.     *)
(*                                                                         *)
(* Hook events (GOOGLE_MATCHED_MARKETS_VERIF=1), in the order emitted:     *)
(*   start   <<k0, T0, ctl0, needs_matching>>                              *)
(*   move    <<k, ctl'>>      the matching pass replaced the control group *)
(*   freeze  <<k, T_k, ctl>>  no neighbouring control group scores higher  *)
(*   augment <<k+1, T_{k+1}, ctl'>>  one geo moved into treatment (or not) *)
(*   keep    <<k, T_k, C_k>>  the final filter kept the design for size k  *)
(* Every event must be the corresponding step of MMImplG (Start /          *)
(* MatchIter / AugmentIter / Finish) evaluated with the REAL tables of the *)
(* instance: oracle ranks of the score tuples (hill climbing compares      *)
(* scores), budget verdicts, integer share weights.  Ties are left open:   *)
(* any best-ranked candidate may be taken.  Steps that involve an empty    *)
(* group (whose score is not a number) are not judged.  Deviations are     *)
(* reported as STEPG:* clauses = drift notes, never property violations.   *)
(***************************************************************************)
EXTENDS MMDefs, SequencesExt, Json, IOUtils, TLCExt

Data == JsonDeserialize(IOEnv.TRACE_FILE)
Insts == Data.instances
NI == Len(Insts)

VARIABLES tid
vars == <<tid>>

\* ---------------------------------------------------------------- the walk's vocabulary
XX(I, X) == {g \in X.adm : I.elig[g] \in {"cx", "tx", "ctx"}}
\* size ranges as greedy_search fills them in (tbrmatchedmarkets.py, the private parameter copy)
TrG(I, X) == IF I.tr[2] # 0 THEN I.tr
             ELSE <<1, Cardinality(X.tt) - (IF Cardinality(X.adm) - Cardinality(X.tt) = 0 THEN 1 ELSE 0)>>
CrG(I, X) == IF I.cr[2] # 0 THEN I.cr
             ELSE <<1, Cardinality(X.cc) - (IF Cardinality(X.adm) - Cardinality(X.cc) = 0 THEN 1 ELSE 0)>>
Coded(T, C) == T # {} /\ C # {} /\ T \cap C = {}
\* design_within_constraints with the filled-in ranges (share against the admitted geos)
WithinG(I, X, T, C) ==
  /\ T # {} /\ C # {}
  /\ RatioOK(W(I, C), W(I, T), I.vtol)
  /\ RatioOK(Cardinality(C), Cardinality(T), I.gtol)
  /\ (HasShare(I) => ShareIn(I, T, X.wA))
  /\ TrG(I, X)[1] <= Cardinality(T) /\ Cardinality(T) <= TrG(I, X)[2]
  /\ CrG(I, X)[1] <= Cardinality(C) /\ Cardinality(C) <= CrG(I, X)[2]
Checked(I, X, k, C) == k >= TrG(I, X)[1] /\ Cardinality(C) <= CrG(I, X)[2]
CandOK(I, X, k, T, C) == /\ (Checked(I, X, k, C) => WithinG(I, X, T, C))
                         /\ BudgetOK(I, T, C)
R(I, T, C) == I.rank[Code(T, C)]
Flip(S, g) == IF g \in S THEN S \ {g} ELSE S \cup {g}

\* ---------------------------------------------------------------- replay: the state before event i
Ev(I) == I.gevents
EvT(e) == SeqToSet(e.t)
EvC(e) == SeqToSet(e.c)
\* control group in force before event i = ctl of the latest earlier event that carries one
CtlBefore(I, i) == LET js == {j \in 1..(i - 1) : Ev(I)[j].e \in {"start", "move", "freeze", "augment"}}
                   IN EvC(Ev(I)[Max(js)])
\* treatment group of size index k before event i = T of the latest start/augment/freeze event
TrtBefore(I, i) == LET js == {j \in 1..(i - 1) : Ev(I)[j].e \in {"start", "augment", "freeze"}}
                   IN EvT(Ev(I)[Max(js)])
\* the frozen control group for the current k before an augment event
FrozenBefore(I, i) == LET js == {j \in 1..(i - 1) : Ev(I)[j].e = "freeze"}
                      IN IF js = {} THEN EvC(Ev(I)[1]) ELSE EvC(Ev(I)[Max(js)])

MoveOK(I, X, i) ==
  LET e == Ev(I)[i]
      k == e.k
      T == TrtBefore(I, i)
      ctl == CtlBefore(I, i)
      re == (X.cc \ (ctl \cup T)) \cup ((ctl \cap XX(I, X)) \ T)
      cands == {g \in re : Coded(T, Flip(ctl, g)) /\ CandOK(I, X, k, T, Flip(ctl, g))}
      judged == Coded(T, ctl) /\ \A g \in re : Coded(T, Flip(ctl, g))
      new == EvC(e)
  IN ~judged \/ (\E g \in cands : /\ new = Flip(ctl, g)
                                   /\ R(I, T, new) > R(I, T, ctl)
                                   /\ \A h \in cands : R(I, T, Flip(ctl, h)) <= R(I, T, new))
FreezeOK(I, X, i) ==
  LET e == Ev(I)[i]
      k == e.k
      T == TrtBefore(I, i)
      ctl == CtlBefore(I, i)
      re == (X.cc \ (ctl \cup T)) \cup ((ctl \cap XX(I, X)) \ T)
      cands == {g \in re : Coded(T, Flip(ctl, g)) /\ CandOK(I, X, k, T, Flip(ctl, g))}
      judged == Coded(T, ctl) /\ \A g \in re : Coded(T, Flip(ctl, g))
  IN /\ EvC(e) = ctl /\ EvT(e) = T
     /\ (~judged \/ \A g \in cands : R(I, T, Flip(ctl, g)) <= R(I, T, ctl))
AugmentOK(I, X, i) ==
  LET e == Ev(I)[i]
      k == e.k - 1
      T == TrtBefore(I, i)
      star == FrozenBefore(I, i)
      ctl == CtlBefore(I, i)
      pool == X.tt \ T
      judged == \A g \in pool : Coded(T \cup {g}, star \ {g})
      cands == {g \in pool : /\ Coded(T \cup {g}, star \ {g})
                             /\ CandOK(I, X, k, T \cup {g}, star \ {g})
                             /\ I.beatsZero[Code(T \cup {g}, star \ {g})]}
  IN ~judged \/
     (IF cands = {} THEN EvT(e) = T /\ EvC(e) = ctl
      ELSE \E g \in cands : /\ EvT(e) = T \cup {g} /\ EvC(e) = star \ {g}
                            /\ \A h \in cands : R(I, T \cup {h}, star \ {h}) <= R(I, T \cup {g}, star \ {g}))

Step(I) ==
  LET X == Ctx(I)
      E == Ev(I)
      n == Len(E)
      idx(kind) == {i \in 1..n : E[i].e = kind}
      started == n > 0 /\ E[1].e = "start"
      walk == {i \in 1..n : E[i].e \in {"move", "freeze", "augment"}}
      keeps == idx("keep")
      \* the groups per size index at the end of the walk
      lastFreeze(k) == LET js == {j \in idx("freeze") : E[j].k = k} IN IF js = {} THEN 0 ELSE Max(js)
      ks == {E[j].k : j \in idx("freeze")} \ {0}
      shouldKeep == {k \in ks : LET j == lastFreeze(k) IN
                                  WithinG(I, X, EvT(E[j]), EvC(E[j])) /\ Coded(EvT(E[j]), EvC(E[j])) /\
                                  BudgetOK(I, EvT(E[j]), EvC(E[j]))}
  IN IF ~started THEN (IF n = 0 THEN {} ELSE {"STEPG:StartsWithStart"})
     ELSE
      (IF ~(E[1].k = Cardinality(X.tf) /\ EvT(E[1]) = X.tf /\ EvC(E[1]) = X.cc /\ (E[1].v = "needs") = (X.tf # {}))
       THEN {"STEPG:StartState"} ELSE {})
      \cup (IF \E i \in idx("move") : ~MoveOK(I, X, i) THEN {"STEPG:MatchMoveIsBestStrictImprovement"} ELSE {})
      \cup (IF \E i \in idx("freeze") : ~FreezeOK(I, X, i) THEN {"STEPG:FreezeOnlyWithoutImprovement"} ELSE {})
      \cup (IF \E i \in idx("augment") : ~AugmentOK(I, X, i) THEN {"STEPG:AugmentTakesBestCandidate"} ELSE {})
      \cup (IF \E i \in idx("augment") : E[i].k > TrG(I, X)[2] THEN {"STEPG:TreatmentSizeBound"} ELSE {})
      \cup (IF I.greedy.status = "ok" /\ {E[i].k : i \in keeps} # shouldKeep THEN {"STEPG:FinalFilter"} ELSE {})

Judge(I) == [id |-> I.id, fails |-> SetToSeq(Step(I)), facts |-> [events |-> Len(Ev(I))]]

Init == tid = 1
Next == /\ tid <= NI
        /\ PrintT(ToJson(Judge(Insts[tid])))
        /\ tid' = tid + 1
Spec == Init /\ [][Next]_vars
=============================================================================
