---------------------------- MODULE DayWindows ----------------------------
(***************************************************************************)
(* utils.find_days_to_exclude + utils.expand_time_windows (property C20).  *)
(*                                                                         *)
(* Calendar days are ordinals 0..M (the replayer renders ordinal d as      *)
(* base + d days for several bases straddling month / year / leap          *)
(* boundaries).  An input entry is a record [k, a, b]:                     *)
(*   k = 0  a single day  a                                                *)
(*   k = 1  a closed range  a - b  (reversed when a > b)                   *)
(*   k = 2  a malformed entry of kind a \in 1..NBad (non-date text, month  *)
(*          13, 30 Feb, three-part entry, empty string, dangling dash)     *)
(*                                                                         *)
(* The implementation is a two-phase pipeline and is modelled like that:   *)
(* Parse consumes one entry at a time and appends a window or fails;       *)
(* Expand consumes one window at a time and adds its days to a list that   *)
(* is finally de-duplicated.  The contract (Covered / Accepts) is the      *)
(* declarative union, order- and duplication-independent by construction.  *)
(***************************************************************************)
EXTENDS Integers, Sequences, FiniteSets, TLC, Json

CONSTANTS M,        \* last day ordinal
          MaxLen,   \* maximal number of entries
          NBad,     \* number of malformed-entry kinds
          Wide      \* TRUE: a longer calendar with proper ranges only (a < b), so that lists of ranges which overlap,
                    \* nest, touch and BRIDGE one another (one range starting inside a second and ending inside a
                    \* third, with uncovered days in between) are enumerated without the malformed kinds

Days == 0..M
Entry == IF Wide THEN {e \in [k : {1}, a : Days, b : Days] : e.a < e.b}
         ELSE [k : {0}, a : Days, b : {0}] \cup [k : {1}, a : Days, b : Days] \cup [k : {2}, a : 1..NBad, b : {0}]

VARIABLES entries,   \* the input list (chosen in Init, never changes)
          pc,        \* "parse" | "expand" | "done" | "error"
          i,         \* next entry / window to consume
          windows,   \* parsed windows <<first, last>>
          daylist    \* days appended so far, with repetitions (a sequence, like the code's list)
vars == <<entries, pc, i, windows, daylist>>

\* ---------------------------------------------------------------- contract
WellFormed(e) == e.k = 0 \/ (e.k = 1 /\ e.a <= e.b)
DaysOf(e) == IF e.k = 0 THEN {e.a} ELSE IF e.k = 1 THEN e.a..e.b ELSE {}
Accepts(es) == \A j \in 1..Len(es) : WellFormed(es[j])
Covered(es) == UNION {DaysOf(es[j]) : j \in 1..Len(es)}
Range(s) == {s[j] : j \in 1..Len(s)}

\* ---------------------------------------------------------------- implementation-shaped pipeline
SeqsUpTo(n) == UNION {[1..m -> Entry] : m \in 0..n}

Init == /\ entries \in SeqsUpTo(MaxLen)
        /\ pc = "parse" /\ i = 1 /\ windows = <<>> /\ daylist = <<>>

\* find_days_to_exclude: split on '-', build a TimeWindow (which rejects first > last)
Parse ==
  /\ pc = "parse"
  /\ IF i > Len(entries)
     THEN pc' = "expand" /\ i' = 1 /\ UNCHANGED <<windows, daylist>>
     ELSE LET e == entries[i]
          IN IF WellFormed(e)
             THEN /\ windows' = Append(windows, IF e.k = 0 THEN <<e.a, e.a>> ELSE <<e.a, e.b>>)
                  /\ i' = i + 1 /\ UNCHANGED <<pc, daylist>>
             ELSE pc' = "error" /\ UNCHANGED <<i, windows, daylist>>
  /\ UNCHANGED entries

\* expand_time_windows: days_exclude += date_range(first, last); finally list(set(...))
Expand ==
  /\ pc = "expand"
  /\ IF i > Len(windows)
     THEN pc' = "done" /\ UNCHANGED <<i, daylist>>
     ELSE LET w == windows[i]
          IN /\ daylist' = daylist \o [j \in 1..(w[2] - w[1] + 1) |-> w[1] + j - 1]
             /\ i' = i + 1 /\ UNCHANGED pc
  /\ UNCHANGED <<entries, windows>>

Next == Parse \/ Expand
Spec == Init /\ [][Next]_vars /\ WF_vars(Next)

Result == Range(daylist)     \* the de-duplicating list(set(.)) of the last line

\* ---------------------------------------------------------------- properties
TypeOK == /\ pc \in {"parse", "expand", "done", "error"}
          /\ \A j \in 1..Len(windows) : windows[j][1] <= windows[j][2]
RefinesContract ==
  /\ (pc = "done" => Accepts(entries) /\ Result = Covered(entries))
  /\ (pc = "error" => ~Accepts(entries))
  /\ (pc = "expand" => Accepts(entries))
\* partial progress: what has been expanded so far never contains a day nobody asked for
NoForeignDay == Range(daylist) \subseteq Covered(entries)
Terminates == <>(pc \in {"done", "error"})

\* one JSON line per finished behaviour: the case and what the contract demands of the code
SetToSeq(S) == [j \in 1..Cardinality(S) |-> CHOOSE x \in S : Cardinality({y \in S : y < x}) = j - 1]
Emit == (pc \in {"done", "error"}) =>
          PrintT(ToJson([entries |-> entries, ok |-> (pc = "done"), days |-> SetToSeq(Covered(entries))]))
=============================================================================
