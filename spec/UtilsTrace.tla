----------------------------- MODULE UtilsTrace -----------------------------
(***************************************************************************)
(* Trace validation of utils.randomize_strata (code -> spec): the driver   *)
(* records, per call, n_items, the group ids (as 1..k) and the returned    *)
(* list; every recorded outcome must be one the contract StrataOK of       *)
(* Utils.tla allows.  One verdict line per trace.                          *)
(***************************************************************************)
EXTENDS Integers, Sequences, FiniteSets, SequencesExt, TLC, Json, IOUtils, TLCExt

U == INSTANCE Utils WITH case <- [fn |-> "none"]

Data == JsonDeserialize(IOEnv.TRACE_FILE)
Traces == Data.traces
NT == Len(Traces)

VARIABLES tid
vars == <<tid>>

Judge(t) ==
  LET G == [j \in 1..t.k |-> j]
      fails == (IF U!StrataOK(t.n, G, t.out) THEN {} ELSE {"StrataOK"})
               \cup (IF t.again = t.out THEN {} ELSE {"SameSeedSameOutcome"})
  IN [id |-> t.id, fails |-> SetToSeq(fails)]

Init == tid = 1
Next == /\ tid <= NT
        /\ PrintT(ToJson(Judge(Traces[tid])))
        /\ tid' = tid + 1
Spec == Init /\ [][Next]_vars
=============================================================================
