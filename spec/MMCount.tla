------------------------------- MODULE MMCount -------------------------------
(***************************************************************************)
(* C11: count_max_designs() = number of pairs the group generators produce *)
(*      = number of legal, size-admissible three-way assignments.          *)
(*                                                                         *)
(* An instance is a vector of class counts over the admitted geos          *)
(*    vec = <<n_t, n_c, n_cx, n_tx, n_ct, n_ctx>>                          *)
(* (geos are numbered class by class), the two user size ranges and the    *)
(* geo-ratio tolerance.  Three definitions are compared:                   *)
(*   ClosedForm   the five-level sum of tbrmatchedmarkets.py:268-308,      *)
(*                transcribed loop by loop;                                *)
(*   Generated    the set of <<T, C>> the two generators yield             *)
(*                (tbrmatchedmarkets.py:137-266), operationally;           *)
(*   Declarative  all maps geo -> {control, treatment, neither} respecting *)
(*                eligibility, size ranges and ratio, both groups non-empty*)
(***************************************************************************)
EXTENDS Integers, Sequences, FiniteSets, FiniteSetsExt, TLC, Json

CONSTANTS MaxGeos, EmitMod, EmitRes

VARIABLES vec, tr, cr, gtol
vars == <<vec, tr, cr, gtol>>

Ranges == {<<0, 0>>, <<1, 1>>, <<1, 2>>, <<2, 2>>, <<2, 3>>, <<3, 4>>}
Tols == {<<0, 0>>, <<1, 4>>, <<1, 2>>, <<1, 1>>, <<2, 1>>}
Vecs == {v \in [1..6 -> 0..MaxGeos] : v[1] + v[2] + v[3] + v[4] + v[5] + v[6] \in 1..MaxGeos}

Init == vec \in Vecs /\ tr \in Ranges /\ cr \in Ranges /\ gtol \in Tols
Next == UNCHANGED vars
Spec == Init /\ [][Next]_vars

N == vec[1] + vec[2] + vec[3] + vec[4] + vec[5] + vec[6]
Geos == 1..N
\* geos numbered class by class
Off(i) == IF i = 1 THEN 0 ELSE IF i = 2 THEN vec[1] ELSE IF i = 3 THEN vec[1] + vec[2]
          ELSE IF i = 4 THEN vec[1] + vec[2] + vec[3] ELSE IF i = 5 THEN vec[1] + vec[2] + vec[3] + vec[4]
          ELSE vec[1] + vec[2] + vec[3] + vec[4] + vec[5]
ClassSet(i) == (Off(i) + 1)..(Off(i) + vec[i])
TF == ClassSet(1)  CF == ClassSet(2)  CX == ClassSet(3)  TX == ClassSet(4)  CT == ClassSet(5)  CTX == ClassSet(6)
TT == TF \cup TX \cup CT \cup CTX
CC == CF \cup CX \cup CT \cup CTX
Max2(a, b) == IF a > b THEN a ELSE b
Min2(a, b) == IF a < b THEN a ELSE b
RatioOK(nc, nt) == gtol[2] = 0 \/ (nc * gtol[2] <= nt * (gtol[1] + gtol[2]) /\ nt * gtol[2] <= nc * (gtol[1] + gtol[2]))

\* ---------------------------------------------------------------- size generators (lines 137-184)
TrtSizes == LET nmin == Max2(1, Cardinality(TF))
                nmax == Cardinality(TT) - (IF CX \cup CF = {} THEN 1 ELSE 0)
            IN IF tr[2] = 0 THEN nmin..nmax ELSE Max2(tr[1], nmin)..Min2(tr[2], nmax)
CtlSizes(nt) == LET nmin == Max2(1, Cardinality(CF))
                    nmax == Cardinality(CC)
                    rng == IF cr[2] = 0 THEN nmin..nmax ELSE Max2(cr[1], nmin)..Min2(cr[2], nmax)
                IN {nc \in rng : RatioOK(nc, nt)}

\* ---------------------------------------------------------------- group generators (lines 186-266)
KSub(S, k) == {s \in SUBSET S : Cardinality(s) = k}
TrtGroups(n) == LET r == n - Cardinality(TF)
                IN IF r = 0 /\ TF # {} THEN {TF} ELSE IF r > 0 THEN {TF \cup s : s \in KSub(TT \ TF, r)} ELSE {}
CtlGroups(T) == LET fixed == CF \cup (CT \ T)
                    vary == (CC \ T) \ fixed
                IN UNION {LET r == nc - Cardinality(fixed)
                          IN IF r = 0 /\ fixed # {} THEN {fixed}
                             ELSE IF r > 0 THEN {fixed \cup s : s \in KSub(vary, r)} ELSE {}
                          : nc \in CtlSizes(Cardinality(T))}
Generated == UNION {UNION {{<<T, C>> : C \in CtlGroups(T)} : T \in TrtGroups(n)} : n \in TrtSizes}

\* ---------------------------------------------------------------- declarative design space
\* a[g] = 0 neither, 1 treatment, 2 control
AllowedCodes(g) == IF g \in TF THEN {1} ELSE IF g \in CF THEN {2} ELSE IF g \in CX THEN {0, 2}
                   ELSE IF g \in TX THEN {0, 1} ELSE IF g \in CT THEN {1, 2} ELSE {0, 1, 2}
InUser(n, r) == r[2] = 0 \/ (r[1] <= n /\ n <= r[2])
Declarative ==
  {a \in [Geos -> {0, 1, 2}] :
     /\ \A g \in Geos : a[g] \in AllowedCodes(g)
     /\ LET nt == Cardinality({g \in Geos : a[g] = 1})
            nc == Cardinality({g \in Geos : a[g] = 2})
        IN nt >= 1 /\ nc >= 1 /\ InUser(nt, tr) /\ InUser(nc, cr) /\ RatioOK(nc, nt)}
AsPair(a) == <<{g \in Geos : a[g] = 1}, {g \in Geos : a[g] = 2}>>

\* ---------------------------------------------------------------- closed form (lines 268-308)
RECURSIVE Comb(_, _)
Comb(n, k) == IF k < 0 \/ k > n THEN 0 ELSE IF k = 0 \/ k = n THEN 1 ELSE Comb(n - 1, k - 1) + Comb(n - 1, k)
SumOver(S, F(_)) == FoldSet(LAMBDA x, acc : acc + F(x), 0, S)
ClosedForm ==
  LET nT == vec[1]  nC == vec[2]  nCX == vec[3]  nTX == vec[4]  nCT == vec[5]  nCTX == vec[6]
  IN SumOver(0..nCT, LAMBDA ict :
       SumOver(0..nTX, LAMBDA itx :
         SumOver(0..nCTX, LAMBDA ictx :
           LET ntrt == nT + itx + ictx + ict
           IN IF ntrt \in TrtSizes
              THEN SumOver(0..nCX, LAMBDA icx :
                     SumOver(0..(nCTX - ictx), LAMBDA icctx :
                       LET nctl == nC + icx + icctx + (nCT - ict)
                       IN IF nctl \in CtlSizes(ntrt)
                          THEN Comb(nCT, ict) * Comb(nTX, itx) * Comb(nCTX, ictx) * Comb(nCX, icx) * Comb(nCTX - ictx, icctx)
                          ELSE 0))
              ELSE 0)))

\* ---------------------------------------------------------------- C11
GeneratedIsDeclarative == Generated = {AsPair(a) : a \in Declarative}
CountIsGenerated == ClosedForm = Cardinality(Generated)
\* it is an upper bound for any subset the search evaluates (trivially, stated for the record)
UpperBound == \A S \in {Generated} : Cardinality(S) <= ClosedForm

Hash == (vec[1] * 7 + vec[2] * 11 + vec[3] * 13 + vec[4] * 17 + vec[5] * 19 + vec[6] * 23
         + tr[1] * 29 + tr[2] * 31 + cr[1] * 37 + cr[2] * 41 + gtol[1] * 43 + gtol[2] * 47) % EmitMod
Emit == (Hash = EmitRes) =>
          PrintT(ToJson([vec |-> vec, tr |-> tr, cr |-> cr, gtol |-> gtol, count |-> ClosedForm,
                         declarative |-> Cardinality(Declarative), sizes |-> TrtSizes]))
=============================================================================
