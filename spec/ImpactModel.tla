----------------------------- MODULE ImpactModel -----------------------------
(***************************************************************************)
(* Required impact of a TBR matched-markets design (property C05) on top   *)
(* of the exact response posterior of TBRModel.                            *)
(*                                                                         *)
(*   tbrmmdiagnostics.TBRMMDiagnostics._impact_estimate,                   *)
(*   estimate_required_impact, required_impact, tbrfit;  tbr.TBR           *)
(*                                                                         *)
(* A case is a case of TBRModel with n_cool = 0: pre-period series x       *)
(* (control), y (treatment) of length n, and an n_test-day test period.    *)
(* The three quantiles the code takes from scipy are PLANTED rationals:    *)
(*   phi  = F(1, n-1).ppf(flevel)        in Phis                           *)
(*   q_s  = t(n-2).ppf(sig_level)        = hs / 2, hs in QHalves           *)
(*   q_p  = t(n-2).ppf(power_level)      = hp / 2, hp in QHalves           *)
(* (the replayer plants them through the cdf), so everything below is      *)
(* exact rational arithmetic on squares:                                   *)
(*                                                                         *)
(*   PostScaleSq(sigma2, n, n_test, dv)                                    *)
(*        = sigma2 n_test^2 (1/n_test + 1/n + dv)                          *)
(* is the ONE operator for the squared posterior scale of the cumulative   *)
(* effect of an n_test-day test:                                           *)
(*   analysis side   dv = dx^2 / S_xx,  dx = mean test control - mean pre  *)
(*                   control: equals var_T of TBRModel (Kerman 2017 eq 5)  *)
(*                   on every enumerated test period, and the design-side  *)
(*                   tbrfit                                   (invariant)  *)
(*   design side     dv = phi (n+1) / (n n_test (n-1)): the displacement   *)
(*                   of the control mean by the planning F-quantile        *)
(*   RequiredImpactSq = (q_s + q_p)^2 PostScaleSq(sigma2, n, n_test, dv)   *)
(* with sigma2 the residual variance RSS / (n-2) of TBRModel.              *)
(*                                                                         *)
(* Implementation-shaped steps after TBRModel's pipeline (Fit, Select,     *)
(* Day, DesignFit):                                                        *)
(*   Term     _impact_estimate: (tq_sig + tq_pow) n_test                   *)
(*            sqrt(phi (n+1) / (n n_test (n-1)) + 1/n + 1/n_test)          *)
(*   Sigma    estimate_required_impact: std(y, ddof=2) sqrt(1 - corr^2)    *)
(*   Impact   impact = term * sigma                                        *)
(***************************************************************************)
EXTENDS TBRModel

CONSTANTS Phis,        \* planted F-quantiles (positive integers)
          QHalves,     \* planted t-quantiles, in halves (positive integers)
          UnitScales,  \* c: response-unit changes  y -> c y,  x -> c x
          Shifts       \* d: level shifts  y -> y + d,  x -> x + d'

VARIABLES mpc,         \* "start" | "term" | "sigma" | "impact"
          phi, hs, hp, \* the planted quantiles of this behaviour (0 until Term)
          termsq,      \* square of the value of _impact_estimate
          sig2,        \* square of sigma of estimate_required_impact
          risq         \* square of the required impact
mvars == <<mpc, phi, hs, hp, termsq, sig2, risq>>
allvars == <<vars, mvars>>

Sq(r) == RatMul(r, r)
QH(h) == Rat(h, 2)

\* ---------------------------------------------------------------- the contract
PostScaleSq(s2, n, nt, dv) == RatMul(RatMul(s2, <<nt * nt, 1>>), RatAdd(RatAdd(Rat(1, nt), Rat(1, n)), dv))
DvDesign(ph, n, nt) == RatMul(ph, Rat(n + 1, n * nt * (n - 1)))                \* ph a rational
RequiredImpactSq(s2, n, nt, ph, qs, qp) == RatMul(Sq(RatAdd(qs, qp)), PostScaleSq(s2, n, nt, DvDesign(ph, n, nt)))

\* sufficient statistics of any pre-period pair of series (TBRModel's cK, cP, cD are for x, y)
PreStats(xx, yy) ==
  LET S   == SumF(xx, 1, N)
      Sy  == SumF(yy, 1, N)
      K   == N * SumF(Prod2(xx, xx), 1, N) - S * S
      Ky  == N * SumF(Prod2(yy, yy), 1, N) - Sy * Sy
      P   == N * SumF(Prod2(xx, yy), 1, N) - S * Sy
  IN [K |-> K, Ky |-> Ky, P |-> P, D |-> Ky * K - P * P]
SigmaSqOf(st) == Rat(st.D, (N - 2) * N * st.K)             \* RSS / (n - 2), RSS = D / (n K)
RSqOf(st) == Rat(st.P * st.P, st.K * st.Ky)                \* squared Pearson correlation
RISqOf(xx, yy, ph, qs, qp) == RequiredImpactSq(SigmaSqOf(PreStats(xx, yy)), N, NT, ph, qs, qp)

\* analysis side: displacement of the control mean in the enumerated test period, dv = dx^2 / S_xx with S_xx = K / n
DxData == RatSub(Rat(c.Cx[NT], NT), Rat(c.S, N))
DvData == RatDiv(Sq(DxData), Rat(c.K, N))
\* the F-quantile that would displace the control mean exactly as the enumerated test period does
PhiOfData == RatDiv(DvData, Rat(N + 1, N * NT * (N - 1)))
VarT == RatMul(Rat(c.D, c.df * c.nk), Rat(c.V[NT], c.nk))  \* var_T of TBRModel = sigma^2 V_T / (n K)

\* ---------------------------------------------------------------- implementation-shaped steps
MInit ==
  /\ shape \in Shapes
  /\ NC = 0
  /\ x \in [1..L -> 0..MV]
  /\ cK > 0
  /\ \E yp \in [1..N -> 0..MV] :
       IF YF = 1 THEN \E yt \in [1..T -> 0..MV] : y = yp \o yt
                 ELSE y = yp \o [i \in 1..T |-> DerivedY(yp, N + i)]
  /\ cD > 0
  /\ (EmitOnly => Sampled)
  /\ c = Contract
  /\ pc = "fit" /\ tlab = BaseLab /\ tx = x /\ ty = y /\ uc = TRUE /\ ax = <<>> /\ ay = <<>>
  /\ fit = [n |-> 0, S |-> 0, Q |-> 0, Sy |-> 0, Qy |-> 0, Sxy |-> 0]
  /\ t = 0 /\ cumx = 0 /\ cumy = 0 /\ locs = <<>> /\ vs = <<>>
  /\ dfit = [est |-> <<0, 1>>, sf |-> <<0, 1>>]
  /\ mpc = "start" /\ phi = 0 /\ hs = 0 /\ hp = 0
  /\ termsq = <<0, 1>> /\ sig2 = <<0, 1>> /\ risq = <<0, 1>>

\* _impact_estimate(n_test, n, flevel, sig_level, power_level):
\*   phi = f(1, n-1).ppf(flevel); tq_sig = t.ppf(sig_level, n-2); tq_pow = t.ppf(power_level, n-2)
\*   sq = sqrt(phi (n+1) / (n n_test (n-1)) + 1/n + 1/n_test);  term = (tq_sig + tq_pow) n_test sq
Term ==
  /\ pc = "end" /\ ~uc /\ mpc = "start"
  /\ \E ph \in Phis, a \in QHalves, b \in QHalves :
       /\ phi' = ph /\ hs' = a /\ hp' = b
       /\ LET n == fit.n
              nt == t
              inner == RatAdd(RatAdd(Rat(ph * (n + 1), n * nt * (n - 1)), Rat(1, n)), Rat(1, nt))
          IN termsq' = RatMul(RatMul(Sq(RatAdd(QH(a), QH(b))), <<nt * nt, 1>>), inner)
  /\ mpc' = "term"
  /\ UNCHANGED <<vars, sig2, risq>>

\* estimate_required_impact(corr): sigma = np.std(y, ddof=2) sqrt(1 - corr^2), corr = np.corrcoef(x, y)[0, 1]:
\*   std(y, ddof=2)^2 = S_yy / (n - 2) = Ky / (n (n - 2)),  corr^2 = P^2 / (K Ky)
Sigma ==
  /\ mpc = "term"
  /\ LET n  == fit.n
         Ky == n * fit.Qy - fit.Sy * fit.Sy
     IN sig2' = RatMul(Rat(Ky, n * (n - 2)), RatSub(<<1, 1>>, Rat(fP * fP, fK * Ky)))
  /\ mpc' = "sigma"
  /\ UNCHANGED <<vars, phi, hs, hp, termsq, risq>>

Impact ==
  /\ mpc = "sigma"
  /\ risq' = RatMul(termsq, sig2)
  /\ mpc' = "impact"
  /\ UNCHANGED <<vars, phi, hs, hp, termsq, sig2>>

MNext == \/ ((Fit \/ Select \/ Day \/ DesignFit) /\ UNCHANGED mvars)
         \/ Term \/ Sigma \/ Impact
MSpec == MInit /\ [][MNext]_allvars /\ WF_allvars(MNext)

\* ---------------------------------------------------------------- properties
MTypeOK ==
  /\ mpc \in {"start", "term", "sigma", "impact"}
  /\ NC = 0 /\ N >= 3 /\ NT >= 1
  /\ (mpc # "start" => phi \in Phis /\ hs \in QHalves /\ hp \in QHalves)

\* PostScaleSq with the displacement read off the data IS the posterior variance of TBRModel on the last test day,
\* both as computed by the day loop of tbr.TBR (vs) and by the design-side tbrfit (dfit.sf), on every test period
PostScaleIsPosterior ==
  pc = "end" =>
    /\ PostScaleSq(Rat(c.D, c.df * c.nk), N, NT, DvData) = VarT
    /\ PostScaleSq(<<1, 1>>, N, NT, DvData) = Rat(N * vs[t], c.nk)
    /\ PostScaleSq(<<1, 1>>, N, NT, DvData) = RatNorm(dfit.sf)
    /\ t = NT

\* sigma of estimate_required_impact is the residual standard deviation of the pre-period regression
SigmaIsResidual ==
  mpc \in {"sigma", "impact"} => /\ sig2 = Rat(c.D, c.df * c.nk)
                                 /\ sig2 = SigmaSqOf(PreStats(x, y))
                                 /\ sig2[1] > 0

\* the code's formula is the contract: (q_s + q_p)^2 times the posterior variance at the planned displacement
ImpactRefinesContract ==
  mpc = "impact" => /\ risq = RequiredImpactSq(Rat(c.D, c.df * c.nk), N, NT, <<phi, 1>>, QH(hs), QH(hp))
                    /\ risq = RISqOf(x, y, <<phi, 1>>, QH(hs), QH(hp))
                    /\ risq[1] > 0

\* ... and that posterior variance is TBRModel's: with the F-quantile that displaces the control mean exactly as
\* the enumerated test period does, required impact^2 = (q_s + q_p)^2 var_T.  Consequently, if the test shows
\* a total lift RI = (q_s + q_p) s_T, then estimate = RI and lower = RI - q_s s_T = q_p s_T.
CalibratedToPosterior ==
  mpc = "impact" =>
    /\ RequiredImpactSq(Rat(c.D, c.df * c.nk), N, NT, PhiOfData, QH(hs), QH(hp)) = RatMul(Sq(RatAdd(QH(hs), QH(hp))), VarT)
    /\ RatSub(RatAdd(QH(hs), QH(hp)), QH(hs)) = QH(hp)

\* linear in the response unit: y -> c y multiplies RI by c; the unit of the control series does not matter
Times(s, m) == [i \in 1..Len(s) |-> m * s[i]]
Plus(s, d) == [i \in 1..Len(s) |-> s[i] + d]
\* The two laws recompute the contract on transformed series; to keep the model small they are evaluated on a third of
\* the planted triples of each case (which third depends on the case), ImpactIsMultipleOfSigma covers the rest:
\* RI^2 = M sigma^2 with M a function of (n, n_test, planted quantiles) only.
LawTriple == ((Hash + phi + (3 * hs) + hp) % 3) = 0
LinearScaling ==
  (mpc = "impact" /\ LawTriple) =>
    \A m \in UnitScales :
      /\ RISqOf(x, Times(y, m), <<phi, 1>>, QH(hs), QH(hp)) = RatMul(<<m * m, 1>>, risq)
      /\ RISqOf(Times(x, m), y, <<phi, 1>>, QH(hs), QH(hp)) = risq
      /\ RISqOf(Times(x, m), Times(y, m), <<phi, 1>>, QH(hs), QH(hp)) = RatMul(<<m * m, 1>>, risq)
\* ignores level shifts of either series
ShiftInvariance ==
  (mpc = "impact" /\ LawTriple) =>
    \A d \in Shifts, e \in Shifts \cup {0} :
      /\ RISqOf(Plus(x, e), Plus(y, d), <<phi, 1>>, QH(hs), QH(hp)) = risq
      /\ RISqOf(x, Plus(y, d), <<phi, 1>>, QH(hs), QH(hp)) = risq

\* strictly decreasing in |correlation| at fixed S_yy: RI^2 = M sigma^2 with M > 0 a function of (n, n_test, planted
\* quantiles) only, and sigma^2 = S_yy (1 - r^2) / (n - 2); compared over every other treatment series y2 of the
\* universe with the same S_yy, against the same and against the reversed control series
Rev(s) == [i \in 1..Len(s) |-> IF i <= N THEN s[N + 1 - i] ELSE s[i]]
RatLt(p, q) == p[1] * q[2] < q[1] * p[2]
ImpactIsMultipleOfSigma ==
  mpc = "impact" => /\ risq = RatMul(termsq, sig2) /\ termsq[1] > 0
                    /\ termsq = RequiredImpactSq(<<1, 1>>, N, NT, <<phi, 1>>, QH(hs), QH(hp))
CorrelationOrder ==
  (pc = "end" /\ ~uc /\ mpc = "start") =>
    LET st == PreStats(x, y)
    IN \A y2 \in [1..N -> 0..MV], rv \in BOOLEAN :
         LET xx == IF rv THEN Rev(x) ELSE x
             s2 == PreStats(xx, y2)
         IN (s2.Ky = st.Ky /\ s2.D > 0) =>
              /\ (RatLt(RSqOf(st), RSqOf(s2)) <=> RatLt(SigmaSqOf(s2), SigmaSqOf(st)))
              /\ (RSqOf(st) = RSqOf(s2) <=> SigmaSqOf(s2) = SigmaSqOf(st))

MTerminates == <>(mpc = "impact" \/ (pc = "end" /\ uc))

\* ---------------------------------------------------------------- emission
MEmit ==
  (mpc = "impact" /\ Sampled) =>
    PrintT(ToJson([
      shape |-> shape, npre |-> N, ntest |-> NT, ncool |-> NC, x |-> x, y |-> y,
      lab |-> [i \in 1..L |-> Lab2Int(BaseLab[i])],
      df |-> c.df, K |-> c.K, P |-> c.P, A |-> c.A, nk |-> c.nk, D |-> c.D,
      Ky |-> PreStats(x, y).Ky,
      phi |-> phi, qs |-> QH(hs), qp |-> QH(hp),
      sig2 |-> sig2, rsq |-> RSqOf(PreStats(x, y)),
      dv |-> DvDesign(<<phi, 1>>, N, NT),
      postsq |-> PostScaleSq(sig2, N, NT, DvDesign(<<phi, 1>>, N, NT)),
      termsq |-> termsq, risq |-> risq,
      hash |-> Hash]))
=============================================================================
