------------------------------- MODULE Utils -------------------------------
(***************************************************************************)
(* The small pure functions of the library that no listed property owns    *)
(* (utils.py, common_classes.py, semantics.py), transcribed as declarative *)
(* contracts.  They are stateless, so the "state machine" is degenerate:   *)
(* one initial state per (function, input) of a small universe, no         *)
(* transition; the invariant Emit prints the input and what the contract   *)
(* demands, and the replayer (harness/extras.py) calls the real function   *)
(* on every one of them.  Where the code as written is known to deviate,   *)
(* the record also carries the AS-IS answer (what a faithful transcription *)
(* of the code gives), so that a deviation is reported once, as drift, and *)
(* anything else as a new disagreement.                                    *)
(*                                                                         *)
(*   freq    utils.infer_frequency                                          *)
(*   hrn     utils.human_readable_number  (integers; rounding to 3 digits) *)
(*   order   utils.float_order            (n / 1000 for integer n)         *)
(*   kwarg   utils.kwarg_subdict          (strings = sequences over 1..3)  *)
(*   bridge  utils.brownian_bridge_bounds (squares, as rationals)          *)
(*   window  common_classes.TimeWindow                                      *)
(*   series  common_classes.EstimatedTimeSeriesWithConfidenceInterval      *)
(*   sem     semantics.GroupSemantics / PeriodSemantics (injective labels) *)
(* randomize_strata is random: its outcomes are judged by UtilsTrace.tla   *)
(* against StrataOK below.                                                 *)
(***************************************************************************)
EXTENDS Integers, Sequences, FiniteSets, TLC, Json

VARIABLE case
vars == <<case>>

Range(s) == {s[j] : j \in 1..Len(s)}
Injective(s) == \A i, j \in 1..Len(s) : i # j => s[i] # s[j]
MinOf(S) == CHOOSE x \in S : \A y \in S : x <= y
SetToSeq(S) == [j \in 1..Cardinality(S) |-> CHOOSE x \in S : Cardinality({y \in S : y < x}) = j - 1]
RECURSIVE Pow10(_)
Pow10(k) == IF k = 0 THEN 1 ELSE 10 * Pow10(k - 1)
RECURSIVE Digits(_)
Digits(n) == IF n < 10 THEN 1 ELSE 1 + Digits(n \div 10)

\* ---------------------------------------------------------------- infer_frequency
\* data: one set of observation days per series.  Per series with at least two observations the smallest gap between
\* consecutive observations is its frequency; all those must agree; 1 day = 'D', 7 days = 'W', anything else (and no
\* series with two observations) is a ValueError.
FDays == {0, 1, 2, 7, 8, 14, 15}
FSeries == (SUBSET FDays) \ {{}}
FreqInputs == {<<s>> : s \in FSeries} \cup {<<s, t>> : s \in FSeries, t \in FSeries}
MinGap(s) == MinOf({b - a : <<a, b>> \in {p \in s \X s : p[1] < p[2]}})
FreqOf(ss) ==
  LET multi == {j \in 1..Len(ss) : Cardinality(ss[j]) > 1}
      gaps == {MinGap(ss[j]) : j \in multi}
  IN IF multi = {} \/ Cardinality(gaps) # 1 THEN "error"
     ELSE LET d == CHOOSE x \in gaps : TRUE
          IN IF d = 1 THEN "D" ELSE IF d = 7 THEN "W" ELSE "error"
FreqCases == {[fn |-> "freq", series |-> [j \in 1..Len(ss) |-> SetToSeq(ss[j])], want |-> FreqOf(ss)] : ss \in FreqInputs}

\* ---------------------------------------------------------------- human_readable_number
\* the number rounded to three significant digits (ties to even, as '{:.3g}' does for exactly representable
\* numbers), divided by 1000 at most four times while it is >= 1000; suffix '', K, M, B, tn
Round3(n) == IF n < 1000 THEN n
             ELSE LET u == Pow10(Digits(n) - 3)
                      q == n \div u
                      r == n % u
                      up == 2 * r > u \/ (2 * r = u /\ q % 2 = 1)
                  IN (IF up THEN q + 1 ELSE q) * u
\* numbers beyond TLC's integers are written m * 10^e: scaling by a power of ten shifts the digits, nothing else
MagOfDigits(d) == IF d <= 3 THEN 0 ELSE IF (d - 1) \div 3 > 4 THEN 4 ELSE (d - 1) \div 3
HrnInputs == (0..1300) \cup {9994, 9995, 9996, 10049, 10050, 10051, 12345, 99949, 99950, 99951, 100500, 101500,
                             999499, 999500, 999501, 1000000, 1004999, 1005000, 1005001, 1234567, 12345678,
                             123456789, 999499999, 999500000, 1000000000, 1999999999, 2144999999}
HrnScaled == {1, 12, 123, 999, 1234, 9995, 99949, 99950, 999499, 999500} \X (1..15)
HrnCases == {[fn |-> "hrn", n |-> n, e |-> 0, neg |-> s, rounded |-> Round3(n),
              mag |-> MagOfDigits(Digits(Round3(n)))] : n \in HrnInputs, s \in BOOLEAN}
            \cup {[fn |-> "hrn", n |-> p[1], e |-> p[2], neg |-> FALSE, rounded |-> Round3(p[1]),
                   mag |-> MagOfDigits(Digits(Round3(p[1])) + p[2])] : p \in HrnScaled}

\* ---------------------------------------------------------------- float_order
\* floor(log10 |x|) for x = n / 1000, n a positive integer; minus infinity for zero
OrderInputs == (1..1300) \cup {9999, 10000, 10001, 99999, 100000, 100001, 999999, 1000000, 1000001, 99999999,
                               100000000, 2147483647}
OrderCases == {[fn |-> "order", n |-> n, neg |-> s, want |-> Digits(n) - 4] : n \in OrderInputs, s \in BOOLEAN}
              \cup {[fn |-> "order", n |-> 0, neg |-> FALSE, want |-> -999]}           \* -999 stands for -infinity

\* ---------------------------------------------------------------- kwarg_subdict
\* strings are sequences over 1..3; the prefix is <<1, 2>>.  Contract: the arguments whose NAME STARTS with the
\* prefix, the prefix stripped.  As written the function selects names that CONTAIN the prefix (re.search) and then
\* strips with re.match, which fails (AttributeError) on a name that contains the prefix only further right.
Prefix == <<1, 2>>
Names == UNION {[1..n -> 1..3] : n \in 1..4}
StartsWith(k, p) == Len(k) >= Len(p) /\ SubSeq(k, 1, Len(p)) = p
Contains(k, p) == \E i \in 1..(Len(k) - Len(p) + 1) : SubSeq(k, i, i + Len(p) - 1) = p
Strip(k, p) == SubSeq(k, Len(p) + 1, Len(k))
KwargInputs == {<<k>> : k \in Names} \cup
               ({<<k, l>> : k \in Names, l \in {m \in Names : Len(m) >= 3}} \ {<<k, k>> : k \in Names})
KwargCases == {[fn |-> "kwarg", names |-> ks,
                want |-> SelectSeq(ks, LAMBDA k : StartsWith(k, Prefix)),
                asis_raises |-> \E j \in 1..Len(ks) : Contains(ks[j], Prefix) /\ ~StartsWith(ks[j], Prefix)] :
                 ks \in KwargInputs}

\* ---------------------------------------------------------------- brownian_bridge_bounds
\* bound_t = m sqrt(t (1 - t/n)), t = 1..n: the squares are the rationals m^2 t (n - t) / n; n < 1 or m <= 0: ValueError
BridgeCases == {[fn |-> "bridge", n |-> n, m |-> m, ok |-> (n >= 1 /\ m > 0),
                 squares |-> IF n >= 1 /\ m > 0 THEN [t \in 1..n |-> <<m * m * t * (n - t), n>>] ELSE <<>>] :
                  n \in -1..9, m \in -1..3}

\* ---------------------------------------------------------------- TimeWindow
WindowCases == {[fn |-> "window", a |-> a, b |-> b, ok |-> (a <= b)] : a \in 0..3, b \in 0..3}

\* ---------------------------------------------------------------- EstimatedTimeSeriesWithConfidenceInterval
\* rows <<estimate, lower, upper>>; a missing column is a KeyError; then any lower > estimate is a ValueError naming the
\* lower bound, then any upper < estimate a ValueError naming the upper bound
SRows == UNION {[1..n -> (0..2) \X (0..2) \X (0..2)] : n \in 0..2}
SeriesVerdict(rows, missing) ==
  IF missing # 0 THEN "keyerror"
  ELSE IF \E j \in 1..Len(rows) : rows[j][2] > rows[j][1] THEN "lower"
  ELSE IF \E j \in 1..Len(rows) : rows[j][3] < rows[j][1] THEN "upper" ELSE "ok"
SeriesCases == {[fn |-> "series", rows |-> r, missing |-> m, want |-> SeriesVerdict(r, m)] : r \in SRows, m \in 0..4}

\* ---------------------------------------------------------------- semantics: labels must be pairwise distinct
Labels == {-1, 0, 1, 2}
SemCases == {[fn |-> "sem", kind |-> "group", labels |-> l, ok |-> Injective(l)] : l \in [1..3 -> Labels]}
            \cup {[fn |-> "sem", kind |-> "period", labels |-> l, ok |-> Injective(l)] : l \in [1..4 -> Labels]}

\* ---------------------------------------------------------------- randomize_strata (judged by UtilsTrace.tla)
\* items are cut into strata of |G| consecutive items; within each complete stratum every group occurs exactly once;
\* the remaining items get pairwise different groups
StrataOK(n, G, out) ==
  /\ Len(out) = n
  /\ LET k == Len(G)
         full == n \div k
         rest == SubSeq(out, full * k + 1, n)
     IN /\ \A b \in 1..full : LET blk == SubSeq(out, (b - 1) * k + 1, b * k) IN Injective(blk) /\ Range(blk) = Range(G)
        /\ Injective(rest) /\ Range(rest) \subseteq Range(G)
RECURSIVE Fact(_)
Fact(k) == IF k <= 1 THEN 1 ELSE k * Fact(k - 1)
RECURSIVE PowN(_, _)
PowN(b, e) == IF e = 0 THEN 1 ELSE b * PowN(b, e - 1)
\* the number of outcomes the contract allows: (k!)^(n div k) * k! / (k - n mod k)!
StrataCount(n, k) == PowN(Fact(k), n \div k) * (Fact(k) \div Fact(k - (n % k)))
StrataCases == {[fn |-> "strata", n |-> n, k |-> k,
                 allowed |-> Cardinality({o \in [1..n -> 1..k] : StrataOK(n, [j \in 1..k |-> j], o)})] :
                  n \in 0..6, k \in 1..3}
StrataCountsAgree == case.fn = "strata" => case.allowed = StrataCount(case.n, case.k)

\* ---------------------------------------------------------------- the degenerate state machine
Cases == FreqCases \cup HrnCases \cup OrderCases \cup KwargCases \cup BridgeCases \cup WindowCases \cup SeriesCases
         \cup SemCases \cup StrataCases
Init == case \in Cases
Next == UNCHANGED case
Spec == Init /\ [][Next]_vars

\* sanity of the contracts themselves
RoundingKeepsThreeDigits ==
  case.fn = "hrn" => /\ case.rounded % Pow10(IF Digits(case.rounded) > 3 THEN Digits(case.rounded) - 3 ELSE 0) = 0
                     /\ 2 * (IF case.rounded > case.n THEN case.rounded - case.n ELSE case.n - case.rounded)
                          <= Pow10(IF Digits(case.n) > 3 THEN Digits(case.n) - 3 ELSE 0)
KwargSubset == case.fn = "kwarg" => Range(case.want) \subseteq Range(case.names)
FreqWeeklyNeedsSevenDayGap ==
  case.fn = "freq" /\ case.want = "W" =>
    \E j \in 1..Len(case.series) : \E i \in 1..(Len(case.series[j]) - 1) : case.series[j][i + 1] - case.series[j][i] = 7
Emit == PrintT(ToJson(case))
=============================================================================
