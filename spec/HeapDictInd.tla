---------------------------- MODULE HeapDictInd ----------------------------
(***************************************************************************)
(* Unbounded safety of the bounded queue of heapdict.HeapDict (C14) as an  *)
(* INDUCTIVE invariant, discharged by Apalache (SMT): for ANY number of    *)
(* pushes of ANY integer values, the queue of one key holds the K largest  *)
(* values pushed so far.                                                   *)
(*                                                                         *)
(* One key suffices (keys do not interact).  The set of everything ever    *)
(* pushed is abstracted by two scalars, which is what makes the state      *)
(* shape finite although the history is unbounded:                         *)
(*   dropped   whether any pushed item is no longer in the queue           *)
(*   dropMax   the largest value among the items that were dropped         *)
(* "The queue is the K largest pushed" is then: every kept value >= every  *)
(* dropped value, and nothing is dropped while there is room.              *)
(* Push is HeapDict!Push (heappush while there is room, else heappushpop:  *)
(* the new item enters and a minimum leaves iff the minimum is strictly    *)
(* smaller than the new item).                                             *)
(*   apalache-mc check --cinit=CInit --init=IndInit --inv=IndInv --length=0   (initiation: Init => IndInv)       *)
(*   apalache-mc check --cinit=CInit --init=IndInit --inv=IndInv --length=1   (consecution: IndInv /\ Next => IndInv') *)
(***************************************************************************)
EXTENDS Integers, FiniteSets, Apalache

CONSTANT
  \* @type: Int;
  K

VARIABLES
  \* @type: Set(<<Int, Int>>);
  q,          \* kept entries <<value, serial>>
  \* @type: Int;
  n,          \* number of pushes so far
  \* @type: Bool;
  dropped,
  \* @type: Int;
  dropMax

CInit == K \in 0..4

\* @type: (<<Int, Int>>) => Int;
Val(e) == e[1]
IsMin(m) == m \in q /\ \A e \in q : Val(m) <= Val(e)
Max2(a, b) == IF a > b THEN a ELSE b

Init == q = {} /\ n = 0 /\ dropped = FALSE /\ dropMax = 0

Push(v) ==
  LET \* @type: <<Int, Int>>;
      e == <<v, n + 1>> IN
  /\ n' = n + 1
  /\ IF Cardinality(q) < K
     THEN q' = q \union {e} /\ UNCHANGED <<dropped, dropMax>>
     ELSE IF \E m \in q : IsMin(m) /\ Val(m) < v
          THEN \E m \in q : /\ IsMin(m)
                            /\ q' = (q \ {m}) \union {e}
                            /\ dropped' = TRUE
                            /\ dropMax' = IF dropped THEN Max2(dropMax, Val(m)) ELSE Val(m)
          ELSE /\ q' = q                         \* the new item itself is discarded
               /\ dropped' = TRUE
               /\ dropMax' = IF dropped THEN Max2(dropMax, v) ELSE v

Next == \E v \in Int : Push(v)

\* ------------------------------------------------------------------ the inductive invariant
IndInv ==
  /\ n >= 0 /\ K >= 0
  /\ Cardinality(q) <= K
  /\ \A e \in q : e[2] >= 1 /\ e[2] <= n                       \* serials of pushes made
  /\ \A e1, e2 \in q : e1[2] = e2[2] => e1 = e2                 \* one entry per push
  /\ (~dropped => Cardinality(q) = n)                           \* nothing dropped while there is room ...
  /\ (dropped => Cardinality(q) = K)                            \* ... and the queue is full once something was
  /\ (dropped => \A e \in q : Val(e) >= dropMax)                \* TopK: kept >= every dropped value

\* arbitrary state of the right shape (bounded only by the queue capacity), constrained by IndInv
IndInit ==
  /\ q = Gen(4)
  /\ n \in Nat
  /\ dropped \in BOOLEAN
  /\ dropMax \in Int
  /\ IndInv
=============================================================================
