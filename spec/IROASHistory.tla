---------------------------- MODULE IROASHistory ----------------------------
(***************************************************************************)
(* Histories of TBRiROAS.summary(random_state = s) calls (property C07:    *)
(* "in the variable-cost scenario the report is a deterministic function   *)
(* of the data and random_state").                                         *)
(*                                                                         *)
(* The data are fixed.  A call names the object it is made on - 0 is one   *)
(* long-lived fitted object, 1 means "a fresh object, fitted on the same   *)
(* frame, used for this call only" -, the random_state and one of the      *)
(* argument combinations.  Implementation-shaped: summary() draws          *)
(*   sims_response = delta_response.rvs(nsims, random_state = s)           *)
(*   sims_cost     = delta_cost.rvs(nsims, random_state = s)               *)
(* scipy builds a private generator from an int s for each rvs call, so    *)
(* the draws are Stream(s) from position 0 both times; with                *)
(* random_state = None (s = 0 here, only when AllowNone) scipy draws from  *)
(* the process-wide generator, whose position grng advances with every     *)
(* call.  The report is an uninterpreted term in (arguments, draws).       *)
(*                                                                         *)
(* Contract: memo holds the first report per (random_state, arguments);    *)
(* every later call with the same key - on the same or on a fresh object,  *)
(* whatever was called in between - returns the memoised report.           *)
(* With AllowNone = TRUE the invariant must FAIL (witness run): the        *)
(* property needs random_state to be given.                                *)
(***************************************************************************)
EXTENDS Integers, Sequences, TLC, Json

CONSTANTS MaxCalls, Seeds, Args, AllowNone

VARIABLES hist,       \* sequence of calls [obj, s, arg, first]; first = index of the first call with the same key
          grng,       \* position of the process-wide generator
          nobj,       \* objects fitted so far
          memo,       \* <<s, arg>> -> [set, rep]
          last        \* report of the last call
vars == <<hist, grng, nobj, memo, last>>

SeedSet == Seeds \cup (IF AllowNone THEN {0} ELSE {})
Keys == SeedSet \X Args
NoRep == <<>>

Init == /\ hist = <<>> /\ grng = 0 /\ nobj = 1
        /\ memo = [k \in Keys |-> [set |-> FALSE, rep |-> NoRep, at |-> 0]]
        /\ last = NoRep

\* the draws of one rvs call: from a private generator seeded with s, or from the process-wide one
Draws(s, g) == IF s = 0 THEN <<"global", g>> ELSE <<"seeded", s, 0>>
\* summary() on a fitted object reads the fit (same data => same fit, whichever object) and the two draws
Report(arg, s, g) == <<arg, Draws(s, g), Draws(s, IF s = 0 THEN g + 1 ELSE g)>>

Call(obj, s, arg) ==
  /\ Len(hist) < MaxCalls
  /\ LET r == Report(arg, s, grng)
         k == <<s, arg>>
     IN /\ last' = r
        /\ memo' = IF memo[k].set THEN memo ELSE [memo EXCEPT ![k] = [set |-> TRUE, rep |-> r, at |-> Len(hist) + 1]]
        /\ hist' = Append(hist, [obj |-> obj, s |-> s, arg |-> arg,
                                 first |-> IF memo[k].set THEN memo[k].at ELSE Len(hist) + 1])
  /\ grng' = IF s = 0 THEN grng + 2 ELSE grng          \* a seeded call leaves the process-wide generator alone
  /\ nobj' = nobj + obj                                \* a fresh object is fitted for the call; object 0 is not touched

Next == \E obj \in {0, 1}, s \in SeedSet, arg \in Args : Call(obj, s, arg)
Spec == Init /\ [][Next]_vars

TypeOK == /\ Len(hist) <= MaxCalls /\ grng >= 0 /\ nobj >= 1
          /\ \A i \in 1..Len(hist) : hist[i].first <= i /\ hist[i].first >= 1

\* the report of the call just made is the first report ever given for its key
MemoInvariant ==
  Len(hist) > 0 => LET h == hist[Len(hist)] IN memo[<<h.s, h.arg>>].set /\ memo[<<h.s, h.arg>>].rep = last

\* `first` really points at an earlier call with the same key
FirstIsSameKey ==
  \A i \in 1..Len(hist) : hist[hist[i].first].s = hist[i].s /\ hist[hist[i].first].arg = hist[i].arg
                          /\ hist[hist[i].first].first = hist[i].first

Emit == (Len(hist) = MaxCalls) => PrintT(ToJson([calls |-> hist]))
=============================================================================
