------------------------------- MODULE MMDefs -------------------------------
(***************************************************************************)
(* Shared vocabulary of the matched-markets search contract (C01-C04, C09, *)
(* C11-C14).  Everything is an operator of an *instance record* I so that  *)
(* one TLC start can judge thousands of recorded instances:                *)
(*   I.n          number of geos in the data, numbered 1..n                *)
(*   I.elig[g]    eligibility class of geo g: one of the seven legal row   *)
(*                types "c" "t" "x" "ct" "cx" "tx" "ctx", or "absent"      *)
(*                (geo in the data but not in the eligibility table)       *)
(*   I.w[g]       integer share weight (total response of the geo)         *)
(*   I.tr, I.cr   user size ranges <<lo, hi>>, <<0, 0>> = not specified     *)
(*   I.gtol, I.vtol  ratio tolerances p/q as <<p, q>>, q = 0 = none         *)
(*   I.share      <<loNum, loDen, hiNum, hiDen>>, loDen = 0 = none          *)
(*   I.hasBudget, I.k (n_designs), I.nmax (n_geos_max, 0 = none)            *)
(*   I.overBudget, I.impactOrder, I.rank, I.budgetOK, I.opt : oracle tables *)
(* Numeric facts (which design scores higher, which budgets fit) come from *)
(* the independent oracle as tables; every structural judgement is made    *)
(* here.                                                                   *)
(***************************************************************************)
EXTENDS Integers, Sequences, FiniteSets, FiniteSetsExt, TLC

Geos(I) == 1..I.n
CanC(cl) == cl \in {"c", "ctx", "cx", "ct"}
CanT(cl) == cl \in {"t", "ctx", "tx", "ct"}
CanX(cl) == cl \in {"x", "ctx", "tx", "cx", "absent"}
Pow3(g) == IF g = 1 THEN 1 ELSE IF g = 2 THEN 3 ELSE IF g = 3 THEN 9 ELSE IF g = 4 THEN 27
           ELSE IF g = 5 THEN 81 ELSE IF g = 6 THEN 243 ELSE 729
Pow2(g) == IF g = 1 THEN 1 ELSE IF g = 2 THEN 2 ELSE IF g = 3 THEN 4 ELSE IF g = 4 THEN 8
           ELSE IF g = 5 THEN 16 ELSE IF g = 6 THEN 32 ELSE 64
Code(T, C) == 1 + FoldSet(LAMBDA g, acc : acc + (IF g \in T THEN 1 ELSE 2) * Pow3(g), 0, T \cup C)
Mask(S) == FoldSet(LAMBDA g, acc : acc + Pow2(g), 0, S)
SeqToSet(s) == {s[i] : i \in 1..Len(s)}
Min2(a, b) == IF a < b THEN a ELSE b
Max2(a, b) == IF a > b THEN a ELSE b
W(I, S) == FoldSet(LAMBDA g, acc : acc + I.w[g], 0, S)

\* ------------------------------------------------------------- admitted geos (tbrmatchedmarkets.py:98-135)
Assignable(I) == {g \in Geos(I) : I.elig[g] \notin {"x", "absent"}}
MustInclude(I) == {g \in Geos(I) : I.elig[g] \in {"t", "c", "ct"}}
HasShare(I) == I.share[2] # 0
TooLarge(I) == IF HasShare(I)
               THEN {g \in Geos(I) : I.w[g] * I.share[4] > I.share[3] * W(I, Geos(I))}
               ELSE {}
OverBudget(I) == IF I.hasBudget THEN SeqToSet(I.overBudget) ELSE {}
Admitted0(I) == (Assignable(I) \ (TooLarge(I) \cup OverBudget(I))) \cup MustInclude(I)
\* n_geos_max: geos that may not be excluded first, then by decreasing per-geo required impact
PosIn(s, g) == CHOOSE i \in 1..Len(s) : s[i] = g
Before(I, a, b) == LET ma == a \in MustInclude(I)
                       mb == b \in MustInclude(I)
                   IN IF ma # mb THEN ma ELSE PosIn(I.impactOrder, a) < PosIn(I.impactOrder, b)
MayReject(I) == I.nmax > 0 /\ Cardinality(MustInclude(I)) > I.nmax
Admitted(I) == LET A0 == Admitted0(I)
               IN IF I.nmax > 0 /\ Cardinality(A0) > I.nmax
                  THEN {g \in A0 : Cardinality({h \in A0 : Before(I, h, g)}) < I.nmax}
                  ELSE A0

\* ------------------------------------------------------------- C01: legality under the eligibility matrix
\* I.missingRequired: the eligibility table given by the user has a row that forbids exclusion for a geo that is not
\* in the data - no design can place that geo, so no design is legal (the documented outcome is a ValueError from
\* the data object)
Legal(I, T, C) == /\ ~I.missingRequired
                  /\ T # {} /\ C # {} /\ T \cap C = {}
                  /\ T \cup C \subseteq Geos(I)
                  /\ \A g \in T : CanT(I.elig[g])
                  /\ \A g \in C : CanC(I.elig[g])
                  /\ \A g \in Geos(I) \ (T \cup C) : CanX(I.elig[g])

\* ------------------------------------------------------------- derived context of an instance
\* Computed once per instance (TLC does not memoise operator applications): admitted geos, weights,
\* the classes over the admitted geos and the admissible treatment sizes (tbrmatchedmarkets.py:137-184).
Ctx(I) ==
  LET A == Admitted(I)
      tt == {g \in A : CanT(I.elig[g])}
      cc == {g \in A : CanC(I.elig[g])}
      tf == {g \in A : I.elig[g] = "t"}
      noCtlOnly == {g \in A : I.elig[g] \in {"cx", "c"}} = {}
      lo == Max2(1, Cardinality(tf))
      hi == Cardinality(tt) - (IF noCtlOnly THEN 1 ELSE 0)
  IN [adm |-> A, wG |-> W(I, Geos(I)), wA |-> W(I, A), tt |-> tt, cc |-> cc, tf |-> tf,
      sizes |-> IF I.tr[2] = 0 THEN lo..hi ELSE Max2(I.tr[1], lo)..Min2(I.tr[2], hi),
      must |-> MustInclude(I)]

\* ------------------------------------------------------------- C02: numeric constraints, by cross-multiplication
InRange(n, r) == r[2] = 0 \/ (r[1] <= n /\ n <= r[2])
RatioOK(a, b, tol) == tol[2] = 0 \/ (/\ a * tol[2] <= b * (tol[1] + tol[2])
                                     /\ b * tol[2] <= a * (tol[1] + tol[2]))
TrtSizeOK(I, T, C) == InRange(Cardinality(T), I.tr)
CtlSizeOK(I, T, C) == InRange(Cardinality(C), I.cr)
GeoRatioOK(I, T, C) == RatioOK(Cardinality(C), Cardinality(T), I.gtol)
VolumeOK(I, T, C) == RatioOK(W(I, C), W(I, T), I.vtol)
\* share of T against a reference weight, inside [lo, hi]
ShareIn(I, T, wRef) == /\ W(I, T) * I.share[2] >= I.share[1] * wRef
                       /\ W(I, T) * I.share[4] <= I.share[3] * wRef
\* the two readings the documentation allows: against all geos in the data / against the admitted geos
ShareLenient(I, X, T) == ~HasShare(I) \/ ShareIn(I, T, X.wG) \/ ShareIn(I, T, X.wA)
ShareStrict(I, X, T) == ~HasShare(I) \/ (ShareIn(I, T, X.wG) /\ ShareIn(I, T, X.wA))
BudgetOK(I, T, C) == (~I.hasBudget) \/ I.budgetOK[Code(T, C)]
Within(I, X, T, C) == /\ TrtSizeOK(I, T, C) /\ CtlSizeOK(I, T, C) /\ GeoRatioOK(I, T, C)
                      /\ VolumeOK(I, T, C) /\ ShareLenient(I, X, T) /\ BudgetOK(I, T, C)
WithinStrict(I, X, T, C) == /\ TrtSizeOK(I, T, C) /\ CtlSizeOK(I, T, C) /\ GeoRatioOK(I, T, C)
                            /\ VolumeOK(I, T, C) /\ ShareStrict(I, X, T) /\ BudgetOK(I, T, C)

\* ------------------------------------------------------------- the design space over the admitted geos
\* enumerated constructively (treatment group first), then filtered by Legal: the same set as
\* {d \in (SUBSET adm) \X (SUBSET adm) : Legal(I, d[1], d[2])}, at 3^n instead of 4^n cost
LegalAdmitted(I, X) ==
  UNION {{<<T, C>> : C \in {C \in SUBSET (X.cc \ T) : C # {} /\ Legal(I, T, C)}} : T \in (SUBSET X.tt) \ {{}}}
Rank(I, d) == I.rank[Code(d[1], d[2])]
\* an admissible treatment group: what the generator produces for a size of the range
AdmissibleTrt(I, X, S) == /\ X.tf \subseteq S /\ S \subseteq X.tt /\ Cardinality(S) \in X.sizes

\* ------------------------------------------------------------- C03: what the exhaustive search owes
OptNotOk(I, S) == I.opt[Mask(S)] # 0
OmittableByBudget(I, X, T) ==
  I.hasBudget /\ (OptNotOk(I, T) \/ \E S \in SUBSET T : S # T /\ S # {} /\ AdmissibleTrt(I, X, S) /\ OptNotOk(I, S))
FeasibleAdmitted(I, X, LA) == {d \in LA : Within(I, X, d[1], d[2])}
Obligations(I, X, LA) == {d \in LA : WithinStrict(I, X, d[1], d[2]) /\ ~OmittableByBudget(I, X, d[1])}
=============================================================================
