------------------------------- MODULE MMImplG -------------------------------
(***************************************************************************)
(* Implementation-shaped model of TBRMatchedMarkets.greedy_search()        *)
(* (tbrmatchedmarkets.py:500-700), design level: ALL instances over N geos *)
(* with abstract score / budget tables.                                    *)
(*                                                                         *)
(* One action per critical section of the code:                            *)
(*   Start        fill in unspecified size ranges, kappa_0 = |t_fixed|,    *)
(*                control group = every control-eligible geo               *)
(*   MatchIter    one pass of "find the best control group given the       *)
(*                treatment group": try every reassignable geo, keep the   *)
(*                best strict improvement, or freeze the control group     *)
(*   AugmentIter  "add one geo to treatment given the control group"       *)
(*   Finish       the final design_within_constraints (+ budget) filter    *)
(* The constraint predicate can be reached with an empty treatment group   *)
(* (division by zero before fix bcd9b8e): crash actions are explicit.      *)
(* Fixes \subseteq {"D3", "D5", "D6"} switches the repairs made in /repo.   *)
(***************************************************************************)
EXTENDS Integers, Sequences, FiniteSets, TLC, FiniteSetsExt
CONSTANTS N, Fixes, RMax, TRs, CRs, GTols, RankFams, Budgets
Geos == 1..N
Classes == {"x", "t", "c", "ctx", "tx", "cx", "ct", "absent"}
CanC(cl) == cl \in {"c", "ctx", "cx", "ct"}
CanT(cl) == cl \in {"t", "ctx", "tx", "ct"}
CanX(cl) == cl \in {"x", "ctx", "tx", "cx", "absent"}
VARIABLES elig, trIn, crIn, gtol, hasBudget, rankFam,      \* instance (user input)
          tr, cr,                                          \* the (possibly filled-in) ranges
          pc, k, needs, groupCtl, starTrt, starCtl, result
inst == <<elig, trIn, crIn, gtol, hasBudget, rankFam>>
vars == <<inst, tr, cr, pc, k, needs, groupCtl, starTrt, starCtl, result>>
None == <<0, 0>>
Pow3(g) == IF g = 1 THEN 1 ELSE IF g = 2 THEN 3 ELSE IF g = 3 THEN 9 ELSE IF g = 4 THEN 27 ELSE 81
Code(T, C) == 1 + FoldSet(LAMBDA g, acc: acc + (IF g \in T THEN 1 ELSE 2) * Pow3(g), 0, T \cup C)
\* abstract score: 0 = "not better than the all-zero start score" (also every degenerate design)
Rank(T, C) == IF T = {} \/ C = {} THEN 0
              ELSE CASE rankFam = 1 -> Code(T, C) % (RMax + 1)
                     [] rankFam = 2 -> 1
                     [] rankFam = 3 -> (Code(T, C) * 7) % (RMax + 1)
                     [] OTHER -> (Cardinality(T) + 2 * Cardinality(C)) % (RMax + 1)
BudgetOK(T, C) == (~hasBudget) \/ (Code(T, C) % 3 # 0)
Admitted == {g \in Geos : elig[g] \notin {"x", "absent"}}
Cls(c) == {g \in Admitted : elig[g] = c}
TF == Cls("t")  CF == Cls("c")  CT == Cls("ct")  CX == Cls("cx")  TX == Cls("tx")  CTX == Cls("ctx")
TT == TF \cup CT \cup TX \cup CTX
CC == CF \cup CT \cup CX \cup CTX
XX == CX \cup TX \cup CTX
RatioOK(nc, nt) == gtol = None \/ (nc * gtol[2] <= nt * (gtol[1] + gtol[2]) /\ nt * gtol[2] <= nc * (gtol[1] + gtol[2]))
InRange(n, r) == r = None \/ (r[1] <= n /\ n <= r[2])
\* design_within_constraints as the code evaluates it (ranges = current tr/cr); Crash when T empty and ratio given
WithinCrashes(T, C) == gtol # None /\ T = {}
Within(T, C) == /\ RatioOK(Cardinality(C), Cardinality(T))
                /\ InRange(Cardinality(T), tr) /\ InRange(Cardinality(C), cr)
\* contract side
Legal(T, C) == /\ T # {} /\ C # {} /\ T \cap C = {}
               /\ \A g \in T : CanT(elig[g])
               /\ \A g \in C : CanC(elig[g])
               /\ \A g \in Geos \ (T \cup C) : CanX(elig[g])
UserWithin(T, C) == /\ RatioOK(Cardinality(C), Cardinality(T))
                    /\ InRange(Cardinality(T), trIn) /\ InRange(Cardinality(C), crIn)
Init == /\ elig \in [Geos -> Classes]
        /\ trIn \in TRs /\ crIn \in CRs /\ gtol \in GTols
        /\ hasBudget \in Budgets /\ rankFam \in RankFams
        /\ tr = trIn /\ cr = crIn
        /\ pc = "start" /\ k = 0 /\ needs = FALSE /\ groupCtl = {} /\ starTrt = <<>> /\ starCtl = <<>> /\ result = {}
Start == /\ pc = "start"
         /\ IF Admitted = {} THEN pc' = "valueerror" /\ UNCHANGED <<tr, cr, k, needs, groupCtl, starTrt, starCtl>>
            ELSE /\ tr' = IF trIn = None THEN <<1, Cardinality(TT) - (IF Cardinality(Admitted) - Cardinality(TT) = 0 THEN 1 ELSE 0)>> ELSE trIn
                 /\ cr' = IF crIn = None THEN <<1, Cardinality(CC) - (IF Cardinality(Admitted) - Cardinality(CC) = 0 THEN 1 ELSE 0)>> ELSE crIn
                 /\ k' = Cardinality(TF)
                 /\ starTrt' = (Cardinality(TF) :> TF)
                 /\ groupCtl' = CC
                 /\ IF TF = {} THEN starCtl' = (0 :> CC) /\ needs' = FALSE ELSE starCtl' = <<>> /\ needs' = TRUE
                 /\ pc' = "loop"
         /\ UNCHANGED <<inst, result>>
MaxT == tr[2]
\* candidate admissible in a loop step (the "skip the constraint check" rule of the code)
Checked(kk, ctl) == kk >= tr[1] /\ Cardinality(ctl) <= cr[2]
MatchIter ==
  /\ pc = "loop" /\ needs
  /\ LET T == starTrt[k]
         re == (CC \ (groupCtl \cup T)) \cup ((groupCtl \cap XX) \ T)
         Ncg(g) == (groupCtl \ {g}) \cup ({g} \ groupCtl)
         crashing == {g \in re : Checked(k, Ncg(g)) /\ Ncg(g) # {} /\ WithinCrashes(T, Ncg(g))}
         cand == {g \in re : /\ (Checked(k, Ncg(g)) => (Ncg(g) # {} /\ Within(T, Ncg(g))))
                             /\ BudgetOK(T, Ncg(g))}
         cur == Rank(T, groupCtl)
         best == IF cand = {} THEN cur ELSE Max({Rank(T, Ncg(g)) : g \in cand})
     IN IF crashing # {} /\ "D5" \notin Fixes THEN pc' = "crash" /\ UNCHANGED <<k, needs, groupCtl, starTrt, starCtl>>
        ELSE IF best > cur
             THEN /\ \E g \in cand : Rank(T, Ncg(g)) = best /\ groupCtl' = Ncg(g)
                  /\ UNCHANGED <<pc, k, needs, starTrt, starCtl>>
             ELSE /\ starCtl' = [kk \in DOMAIN starCtl \cup {k} |-> IF kk = k THEN groupCtl ELSE starCtl[kk]]
                  /\ needs' = FALSE
                  /\ UNCHANGED <<pc, k, groupCtl, starTrt>>
  /\ UNCHANGED <<inst, tr, cr, result>>
AugmentIter ==
  /\ pc = "loop" /\ ~needs /\ k < MaxT
  /\ LET T == starTrt[k]
         rT == TT \ T
         Aug(g) == T \cup {g}
         Upd(g) == starCtl[k] \ {g}
         cand == {g \in rT : /\ (Checked(k, Upd(g)) => (Upd(g) # {} /\ Within(Aug(g), Upd(g))))
                             /\ BudgetOK(Aug(g), Upd(g))}
         best == IF cand = {} THEN 0 ELSE Max({Rank(Aug(g), Upd(g)) : g \in cand})
     IN /\ IF best > 0
           THEN \E g \in cand : /\ Rank(Aug(g), Upd(g)) = best
                                /\ groupCtl' = Upd(g)
                                /\ starTrt' = [kk \in DOMAIN starTrt \cup {k + 1} |-> IF kk = k + 1 THEN Aug(g) ELSE starTrt[kk]]
           ELSE /\ UNCHANGED groupCtl
                /\ starTrt' = [kk \in DOMAIN starTrt \cup {k + 1} |-> IF kk = k + 1 THEN T ELSE starTrt[kk]]
        /\ k' = k + 1 /\ needs' = TRUE
  /\ UNCHANGED <<inst, tr, cr, pc, starCtl, result>>
Finish ==
  /\ pc = "loop" /\ ~needs /\ k >= MaxT
  /\ LET ks == DOMAIN starTrt \ {0}
         crashing == {kk \in ks : WithinCrashes(starTrt[kk], starCtl[kk])}
         okD5(kk) == "D5" \notin Fixes \/ (starTrt[kk] # {} /\ starCtl[kk] # {})
         okD6(kk) == "D6" \notin Fixes \/ BudgetOK(starTrt[kk], starCtl[kk])
         keep == {kk \in ks : okD5(kk) /\ (~WithinCrashes(starTrt[kk], starCtl[kk])) /\ Within(starTrt[kk], starCtl[kk]) /\ okD6(kk)}
     IN IF crashing # {} /\ "D5" \notin Fixes THEN pc' = "crash" /\ UNCHANGED result
        ELSE IF \E kk \in keep : starTrt[kk] = {} \/ starCtl[kk] = {} THEN pc' = "valueerror" /\ UNCHANGED result
        ELSE pc' = "done" /\ result' = {<<starTrt[kk], starCtl[kk]>> : kk \in keep}
  /\ UNCHANGED <<inst, tr, cr, k, needs, groupCtl, starTrt, starCtl>>
Next == Start \/ MatchIter \/ AugmentIter \/ Finish
Spec == Init /\ [][Next]_vars /\ WF_vars(Next)

\* ---------------------------------------------------------------- staged choice of the instance (simulation mode)
\* see MMImplX.tla: the eligibility class is picked geo by geo, then the parameters; afterwards the behaviour is Spec's.
PickName(g) == "pick" \o ToString(g)
InitStaged == /\ elig = [g \in Geos |-> "absent"]
              /\ trIn = (CHOOSE x \in TRs : TRUE) /\ crIn = (CHOOSE x \in CRs : TRUE) /\ gtol = (CHOOSE x \in GTols : TRUE)
              /\ hasBudget = (CHOOSE x \in Budgets : TRUE) /\ rankFam = (CHOOSE x \in RankFams : TRUE)
              /\ tr = trIn /\ cr = crIn
              /\ pc = PickName(1) /\ k = 0 /\ needs = FALSE /\ groupCtl = {} /\ starTrt = <<>> /\ starCtl = <<>> /\ result = {}
Pick == \E g \in Geos : /\ pc = PickName(g)
                        /\ \E cl \in Classes : elig' = [elig EXCEPT ![g] = cl]
                        /\ pc' = IF g = N THEN "params" ELSE PickName(g + 1)
                        /\ UNCHANGED <<trIn, crIn, gtol, hasBudget, rankFam, tr, cr, k, needs, groupCtl, starTrt, starCtl, result>>
Params == /\ pc = "params"
          /\ trIn' \in TRs /\ crIn' \in CRs /\ gtol' \in GTols /\ hasBudget' \in Budgets /\ rankFam' \in RankFams
          /\ tr' = trIn' /\ cr' = crIn'
          /\ pc' = "start"
          /\ UNCHANGED <<elig, k, needs, groupCtl, starTrt, starCtl, result>>
SpecStaged == InitStaged /\ [][Pick \/ Params \/ Next]_vars
\* ---------------------------------------------------------------- properties
Feasible == {d \in (SUBSET Admitted) \X (SUBSET Admitted) : Legal(d[1], d[2]) /\ UserWithin(d[1], d[2]) /\ BudgetOK(d[1], d[2])}
NoCrash == pc # "crash"                                        \* C09
ResultInFeasible == result \subseteq Feasible                  \* C13 (hence never above the exhaustive optimum)
EmptyWhenInfeasible == (pc = "done" /\ Feasible = {}) => result = {}
ResultLegal == \A d \in result : Legal(d[1], d[2])
ResultWithin == \A d \in result : UserWithin(d[1], d[2])
ResultBudget == \A d \in result : BudgetOK(d[1], d[2])
DomOK == pc = "loop" => (k \in DOMAIN starTrt /\ (~needs => k \in DOMAIN starCtl))
Terminates == <>(pc \in {"done", "valueerror", "crash"})
\* C10: the caller's parameter object (trIn, crIn are never assigned; tr, cr are the private copy after fix ec1db9f)
ParamsUntouched == ("D3" \in Fixes) \/ (tr = trIn /\ cr = crIn)
=============================================================================
