----------------------------- MODULE DataPanel -----------------------------
(***************************************************************************)
(* tbrmmdata.TBRMMData: __init__, the geo_index setter,                    *)
(* aggregate_time_series, aggregate_geo_share (property C15), together     *)
(* with the reconciliation against geoeligibility.GeoEligibility.          *)
(*                                                                         *)
(* INPUT (chosen in Init, never changes)                                   *)
(*   cells  the long-format frame as a function (geo, date) -> -1..MaxVal; *)
(*          -1 = there is no row for that (geo, date).  The frame is a     *)
(*          function, so the order of its rows is irrelevant by            *)
(*          construction (the replayer shuffles the rows) and duplicate    *)
(*          (geo, date) rows cannot be expressed (they are outside C15).   *)
(*   dtype  "int" | "str": the dtype of the ID column handed to the code.  *)
(*   elig   [given, row]: given = FALSE is "no eligibility object";        *)
(*          otherwise row[g] \in 0..7 for every geo of 1..NG+1, 0 = the    *)
(*          table does not list g, k > 0 = the k-th legal triple.  Geo     *)
(*          NG+1 never occurs in the frame (a geo of 1..NG without any     *)
(*          present cell does not either), so the table can be a subset    *)
(*          of, equal to, or exceed the geos in the data.                  *)
(*                                                                         *)
(* The implementation is a pipeline and is modelled like that, one action  *)
(* per step of the code; the declarative contract (operators C...) is      *)
(* written from the property text over the input alone, and the invariants *)
(* Refines* state that whatever the pipeline produced is what the contract *)
(* demands.  Emit prints, per finished behaviour, the case and what the    *)
(* CONTRACT demands of the code.                                           *)
(*                                                                         *)
(* The universe is far too large to replay completely                      *)
(* (4^(NG*ND) frames x 8^(NG+1)+1 tables x all orders), so Init and        *)
(* SetGeoIndex take a deterministic sample of it by hash predicates over   *)
(* the state (Sampled*, below); nothing else about a case is chosen by     *)
(* the replayer except the presentation (shuffle, rendering of IDs/dates).  *)
(***************************************************************************)
EXTENDS Integers, Sequences, FiniteSets, TLC, Json

CONSTANTS NG,        \* geos that may occur in the frame: 1..NG
          ND,        \* dates 1..ND
          MaxVal,    \* cell values 0..MaxVal
          CellMod,   \* a frame is sampled iff Hash(frame) % CellMod = CellRes
          CellRes,
          EligPer,   \* eligibility tables tried per sampled frame (plus "no table")
          OrdModOK,  \* a legal   geo index is sampled iff hash % OrdModOK  = 0
          OrdModBad  \* an illegal geo index is sampled iff hash % OrdModBad = 0

Geos    == 1..NG
AllGeos == 1..(NG + 1)
Dates   == 1..ND
Keys    == Geos \X Dates

\* the seven legal rows <<control, treatment, exclude>> of an eligibility table
Triples == << <<0,0,1>>, <<0,1,0>>, <<1,0,0>>, <<1,1,1>>, <<0,1,1>>, <<1,0,1>>, <<1,1,0>> >>
XFIXED  == 1

VARIABLES cells, dtype, elig,   \* the input
          pc,
          rows, cols, tbl,      \* the pivoted table: index set, ascending column sequence, values
          means,                \* g -> <<sum of the row, number of columns>>
          rowOrder,             \* the order of the rows of .df
          share,                \* g -> <<num, den>>
          recon,                \* the eligibility table held by the object: listed geo -> 1..7
          assignable,
          order,                \* the geo index handed to the setter
          arr, arrShare,        \* _array, _array_geo_share: by position
          gassign,              \* geo_assignments by position
          agg                   \* set of positions -> [ts, share]
vars == <<cells, dtype, elig, pc, rows, cols, tbl, means, rowOrder, share, recon, assignable,
          order, arr, arrShare, gassign, agg>>

\* ---------------------------------------------------------------- helpers
Range(s) == {s[j] : j \in 1..Len(s)}
SetToSeq(S) == [j \in 1..Cardinality(S) |-> CHOOSE x \in S : Cardinality({y \in S : y < x}) = j - 1]
RECURSIVE SumFn(_, _)       \* sum of f[x] over x \in S, f a function
SumFn(S, f) == IF S = {} THEN 0 ELSE LET x == CHOOSE y \in S : TRUE IN f[x] + SumFn(S \ {x}, f)
Pow2(n) == IF n = 0 THEN 1 ELSE IF n = 1 THEN 2 ELSE IF n = 2 THEN 4 ELSE IF n = 3 THEN 8 ELSE
           IF n = 4 THEN 16 ELSE 32
RECURSIVE Pow8(_)
Pow8(n) == IF n = 0 THEN 1 ELSE 8 * Pow8(n - 1)
Injective(s) == \A i, j \in 1..Len(s) : i # j => s[i] # s[j]
SeqsOver(S) == UNION {{s \in [1..n -> S] : Injective(s)} : n \in 0..Cardinality(S)}
Perms(S) == {s \in [1..Cardinality(S) -> S] : Injective(s)}
\* rationals <<num, den>>, den > 0
RatEq(a, b)  == a[1] * b[2] = b[1] * a[2]
RatGeq(a, b) == a[1] * b[2] >= b[1] * a[2]
RatAdd(a, b) == <<a[1] * b[2] + b[1] * a[2], a[2] * b[2]>>
RatDiv(a, b) == <<a[1] * b[2], a[2] * b[1]>>           \* b > 0
RECURSIVE RatSumSeq(_, _)
RatSumSeq(s, P) == IF P = {} THEN <<0, 1>>              \* sum of s[p+1] over positions p \in P
                   ELSE LET p == CHOOSE q \in P : TRUE IN RatAdd(s[p + 1], RatSumSeq(s, P \ {p}))

\* hash-like mixing (all intermediate values < 2^31)
Mix(h, v) == ((h * 131 + v + 2) * ((h % 17) + 3)) % 65521
RECURSIVE Fold(_, _, _)
Fold(s, k, h) == IF k > Len(s) THEN h ELSE Fold(s, k + 1, Mix(h, s[k]))
HashCells(c) == Fold([k \in 1..(NG * ND) |-> c[<<(k - 1) \div ND + 1, ((k - 1) % ND) + 1>>]], 1, 7)

\* ---------------------------------------------------------------- the declarative contract
\* (property text; everything is a function of the input cells / elig alone)
CRows == {g \in Geos : \E d \in Dates : cells[<<g, d>>] # -1}          \* one row per geo
CCols == {d \in Dates : \E g \in Geos : cells[<<g, d>>] # -1}          \* one column per date
CColSeq == SetToSeq(CCols)                                             \* chronological
\* the recorded magnitudes are 0..MaxVal (-1 = no record); a third of the panels record them as NEGATIVE responses
\* (refunds, net flows): the grand total is then negative, the ordering "by decreasing mean" reverses, shares do not
Sgn == IF (HashCells(cells) \div 7) % 3 = 0 THEN -1 ELSE 1
CCell(g, d) == IF cells[<<g, d>>] = -1 THEN 0 ELSE Sgn * cells[<<g, d>>]   \* missing cells zero
CTotal(g) == SumFn(CCols, [d \in CCols |-> CCell(g, d)])
\* mean of g = CTotal(g) / |CCols|; the same denominator for every geo
CGrand == SumFn(CRows, [g \in CRows |-> CTotal(g)])
COrdered(s) == /\ s \in Perms(CRows)                                   \* decreasing mean; ties in any order
               /\ \A i, j \in 1..Len(s) : i < j => CTotal(s[i]) >= CTotal(s[j])
CShare(g) == <<CTotal(g), CGrand>>                                     \* mean / sum of means
CListed == IF elig.given THEN {g \in AllGeos : elig.row[g] # 0} ELSE CRows
CTriple(g) == IF elig.given THEN Triples[elig.row[g]] ELSE <<1, 1, 1>>
CAbsent == CListed \ CRows                                             \* rows for geos absent from the data
CAccept == \A g \in CAbsent : CTriple(g)[3] = 1                        \* ... must allow exclusion, else ValueError
CKept == CListed \cap CRows                                            \* ... and are dropped
CAssignable == {g \in CKept : CTriple(g) # <<0, 0, 1>>}                \* eligible minus must-exclude
CIndexOK(o) == Range(o) \subseteq CAssignable
CPositions(o) == 0..(Len(o) - 1)
\* A searcher restricts the object to its most recent Keep dates (data.df = data.df.iloc[:, -n_pretest_max:],
\* tbrmatchedmarkets.py:69) before it fixes the geo index; Keep = 0: the object is used as constructed.  Keep is an
\* input (sampled by hash).  The aggregates are sums of the rows of the object, i.e. over its remaining columns.
Keep == LET n == Cardinality(CCols)
            eh == IF elig.given THEN Fold([g \in AllGeos |-> elig.row[g]], 1, 11) ELSE 5
            h == Mix(HashCells(cells), eh)
        IN IF n > 1 /\ (h \div 3) % 3 = 0 THEN 1 + (h % (n - 1)) ELSE 0
\* ... and on half of those the caller had already fixed a geo index (all assignable geos in row order) and read the
\* aggregates BEFORE the cut: whatever was derived then must not survive the cut
PreIdx == LET eh == IF elig.given THEN Fold([g \in AllGeos |-> elig.row[g]], 1, 11) ELSE 5
          IN Keep > 0 /\ (Mix(HashCells(cells), eh) \div 7) % 2 = 0
CWinSeq == IF Keep = 0 THEN CColSeq ELSE SubSeq(CColSeq, Len(CColSeq) - Keep + 1, Len(CColSeq))
CAggTS(o, S) == LET cs == CWinSeq IN [k \in 1..Len(cs) |-> SumFn(S, [p \in S |-> CCell(o[p + 1], cs[k])])]
CAggShare(o, S) == <<SumFn(S, [p \in S |-> CTotal(o[p + 1])]), CGrand>>
CClass(o, c, t, x) == {p \in CPositions(o) : CTriple(o[p + 1]) = <<c, t, x>>}
CCan(o, k) == {p \in CPositions(o) : CTriple(o[p + 1])[k] = 1}
CAssignments(o) ==
  [all |-> CPositions(o), c |-> CCan(o, 1), t |-> CCan(o, 2), x |-> CCan(o, 3),
   c_fixed |-> CClass(o, 1, 0, 0), t_fixed |-> CClass(o, 0, 1, 0), x_fixed |-> CClass(o, 0, 0, 1),
   ct |-> CClass(o, 1, 1, 0), cx |-> CClass(o, 1, 0, 1), ctx |-> CClass(o, 1, 1, 1), tx |-> CClass(o, 0, 1, 1)]

\* ---------------------------------------------------------------- sampling of the universe
EligCode(c, j) == Mix(Mix(HashCells(c), j), j + 5) % Pow8(NG + 1)
TableOf(code) == [given |-> TRUE, row |-> [g \in AllGeos |-> (code \div Pow8(g - 1)) % 8]]
NoTable == [given |-> FALSE, row |-> [g \in AllGeos |-> 0]]
EligHash(e) == IF e.given THEN Fold([g \in AllGeos |-> e.row[g]], 1, 11) ELSE 5
SampledCells(c) == HashCells(c) % CellMod = CellRes
StateHash == Mix(HashCells(cells), EligHash(elig))
Orders == SeqsOver(AllGeos)
DefaultOrder == SelectSeq(rowOrder, LAMBDA g : g \in assignable)   \* what TBRMatchedMarkets hands in
SampledOrder(o, sh, dflt) ==      \* sh = StateHash, dflt = DefaultOrder (evaluated once per state)
  \/ o = dflt
  \/ LET h == Mix(sh, Fold(o, 1, Len(o) + 1))
     IN IF Range(o) \subseteq assignable THEN h % OrdModOK = 0 ELSE h % OrdModBad = 0

\* ---------------------------------------------------------------- implementation-shaped pipeline
None == <<>>

Init ==
  /\ cells \in [Keys -> -1..MaxVal]
  /\ SampledCells(cells)
  /\ \E k \in Keys : cells[k] > 0              \* sum of means # 0, otherwise shares are undefined
  /\ elig \in {NoTable} \cup {TableOf(EligCode(cells, j)) : j \in 1..EligPer}
  /\ dtype = IF (HashCells(cells) \div CellMod + EligHash(elig)) % 2 = 0 THEN "int" ELSE "str"
  /\ pc = "pivot"
  /\ rows = {} /\ cols = None /\ tbl = None /\ means = None /\ rowOrder = None /\ share = None
  /\ recon = None /\ assignable = {} /\ order = None /\ arr = None /\ arrShare = None
  /\ gassign = None /\ agg = None

\* the frame as the code sees it: a bag of rows <<geo, date, value>>
LongRows == {<<k[1], k[2], Sgn * cells[k]>> : k \in {kk \in Keys : cells[kk] # -1}}

\* df.pivot_table(values=.., index='geo', columns='date', fill_value=0)   (tbrmmdata.py:108)
Pivot ==
  /\ pc = "pivot"
  /\ LET idx == {r[1] : r \in LongRows}
         cl  == {r[2] : r \in LongRows}
     IN /\ rows' = idx
        /\ cols' = SetToSeq(cl)
        /\ tbl' = [p \in idx \X cl |->
                     IF \E r \in LongRows : r[1] = p[1] /\ r[2] = p[2]
                     THEN (CHOOSE r \in LongRows : r[1] = p[1] /\ r[2] = p[2])[3]
                     ELSE 0]
  /\ pc' = "means"
  /\ UNCHANGED <<cells, dtype, elig, means, rowOrder, share, recon, assignable, order, arr, arrShare, gassign, agg>>

\* df.mean(axis=1)   (tbrmmdata.py:112)
Means ==
  /\ pc = "means"
  /\ means' = [g \in rows |-> <<SumFn(1..Len(cols), [k \in 1..Len(cols) |-> tbl[<<g, cols[k]>>]]), Len(cols)>>]
  /\ pc' = "order"
  /\ UNCHANGED <<cells, dtype, elig, rows, cols, tbl, rowOrder, share, recon, assignable, order, arr, arrShare, gassign, agg>>

\* .sort_values(ascending=False); self.df = df.loc[list(geo_means.index)]   (tbrmmdata.py:112,117)
\* any permutation that is non-increasing in the mean: the sort's tie-break is not part of the property
Order ==
  /\ pc = "order"
  /\ \E s \in Perms(rows) :
       /\ \A i, j \in 1..Len(s) : i < j => RatGeq(means[s[i]], means[s[j]])
       /\ rowOrder' = s
  /\ pc' = "shares"
  /\ UNCHANGED <<cells, dtype, elig, rows, cols, tbl, means, share, recon, assignable, order, arr, arrShare, gassign, agg>>

\* geo_share = geo_means / sum(geo_means)   (tbrmmdata.py:113)
Shares ==
  /\ pc = "shares"
  /\ LET tot == <<SumFn(rows, [g \in rows |-> means[g][1]]), Len(cols)>>      \* sum(geo_means)
     IN share' = [g \in rows |-> RatDiv(means[g], tot)]
  /\ pc' = "reconcile"
  /\ UNCHANGED <<cells, dtype, elig, rows, cols, tbl, means, rowOrder, recon, assignable, order, arr, arrShare, gassign, agg>>

\* tbrmmdata.py:121-150
Reconcile ==
  /\ pc = "reconcile"
  /\ LET table == IF elig.given                          \* default object: every geo in data, 1,1,1
                  THEN [g \in {h \in AllGeos : elig.row[h] # 0} |-> elig.row[g]]
                  ELSE [g \in rows |-> 4]
         all == DOMAIN table
         canx == {g \in all : Triples[table[g]][3] = 1}
         common == rows \cap all
         required_missing == (all \ canx) \ rows
     IN IF common # all /\ required_missing # {}
        THEN /\ pc' = "error_construct"
             /\ UNCHANGED <<recon, assignable>>
        ELSE LET kept == [g \in common |-> table[g]]        \* data.loc[in_data]
                 xfixed == {g \in common : /\ Triples[kept[g]][1] = 0 /\ Triples[kept[g]][2] = 0
                                           /\ Triples[kept[g]][3] = 1}
             IN /\ recon' = kept
                /\ assignable' = common \ xfixed
                /\ pc' = "ready"
  /\ UNCHANGED <<cells, dtype, elig, rows, cols, tbl, means, rowOrder, share, order, arr, arrShare, gassign, agg>>

\* the setter called once before the cut (the arrays are built from ALL columns present then)
PreSetGeoIndex ==
  /\ pc = "ready" /\ PreIdx /\ assignable # {} /\ arr = None /\ Len(cols) > Keep
  /\ LET o == SelectSeq(rowOrder, LAMBDA g : g \in assignable)
     IN /\ order' = o
        /\ arr' = [p \in 1..Len(o) |-> [k \in 1..Len(cols) |-> tbl[<<o[p], cols[k]>>]]]
        /\ arrShare' = [p \in 1..Len(o) |-> share[o[p]]]
  /\ UNCHANGED <<cells, dtype, elig, pc, rows, cols, tbl, means, rowOrder, share, recon, assignable, gassign, agg>>

\* data.df = data.df.iloc[:, -n_pretest_max:]   (tbrmatchedmarkets.py:69; the caller of the setter below)
Restrict ==
  /\ pc = "ready"
  /\ ((PreIdx /\ assignable # {}) => arr # None)
  /\ Keep > 0 /\ Len(cols) > Keep
  /\ cols' = SubSeq(cols, Len(cols) - Keep + 1, Len(cols))
  /\ UNCHANGED <<cells, dtype, elig, pc, rows, tbl, means, rowOrder, share, recon, assignable, order, arr, arrShare,
                 gassign, agg>>

\* geo_index setter   (tbrmmdata.py:156-184)
PosClass(o, c, t, x) == {p \in 0..(Len(o) - 1) : Triples[recon[o[p + 1]]] = <<c, t, x>>}
PosCan(o, k) == {p \in 0..(Len(o) - 1) : Triples[recon[o[p + 1]]][k] = 1}
SetGeoIndex ==
  /\ pc = "ready"
  /\ (Keep = 0 \/ Len(cols) = Keep)
  /\ LET sh == StateHash
         dflt == DefaultOrder
     IN \E o \in Orders :
       /\ SampledOrder(o, sh, dflt)
       /\ order' = o
       /\ IF Range(o) \ assignable # {}
          THEN pc' = "error_index" /\ UNCHANGED <<arr, arrShare, gassign>>
          ELSE /\ gassign' =                                       \* get_eligible_assignments(geos, indices=True)
                    LET c == PosCan(o, 1)  t == PosCan(o, 2)  x == PosCan(o, 3)
                        a == c \cup t \cup x
                    IN [all |-> a, c |-> c, t |-> t, x |-> x,
                        c_fixed |-> (c \ t) \ x, t_fixed |-> (t \ c) \ x, x_fixed |-> (x \ c) \ t,
                        ct |-> (c \cap t) \ x, cx |-> (c \cap x) \ t, ctx |-> c \cap t \cap x,
                        tx |-> (t \cap x) \ c]
               /\ arr' = [p \in 1..Len(o) |-> [k \in 1..Len(cols) |-> tbl[<<o[p], cols[k]>>]]]   \* df.loc[geos]
               /\ arrShare' = [p \in 1..Len(o) |-> share[o[p]]]                                  \* geo_share[geos]
               /\ pc' = "indexed"
  /\ UNCHANGED <<cells, dtype, elig, rows, cols, tbl, means, rowOrder, share, recon, assignable, agg>>

\* aggregate_time_series / aggregate_geo_share for every non-empty set of positions   (tbrmmdata.py:186-209)
Aggregate ==
  /\ pc = "indexed"
  /\ agg' = [S \in (SUBSET (0..(Len(order) - 1))) \ {{}} |->
               [ts |-> [k \in 1..Len(cols) |-> SumFn(S, [p \in S |-> arr[p + 1][k]])],
                share |-> RatSumSeq(arrShare, S)]]
  /\ pc' = "done"
  /\ UNCHANGED <<cells, dtype, elig, rows, cols, tbl, means, rowOrder, share, recon, assignable, order, arr, arrShare, gassign>>

Next == Pivot \/ Means \/ Order \/ Shares \/ Reconcile \/ PreSetGeoIndex \/ Restrict \/ SetGeoIndex \/ Aggregate
Spec == Init /\ [][Next]_vars /\ WF_vars(Next)

\* ---------------------------------------------------------------- properties
Stage(p) == CASE p = "pivot" -> 0 [] p = "means" -> 1 [] p = "order" -> 2 [] p = "shares" -> 3
              [] p = "reconcile" -> 4 [] p = "error_construct" -> 5 [] p = "ready" -> 5
              [] p = "error_index" -> 6 [] p = "indexed" -> 6 [] p = "done" -> 7
TypeOK ==
  /\ pc \in {"pivot", "means", "order", "shares", "reconcile", "error_construct", "ready",
             "error_index", "indexed", "done"}
  /\ dtype \in {"int", "str"}
  /\ CGrand # 0 /\ (CGrand > 0) = (Sgn = 1)

RefinesTable ==            \* one row per geo, one column per date in chronological order, missing cells zero
  Stage(pc) >= 1 => /\ rows = CRows
                    /\ cols \in {CColSeq, CWinSeq}
                    /\ (Stage(pc) <= 4 => cols = CColSeq)
                    /\ (Stage(pc) >= 6 => cols = CWinSeq)
                    /\ \A i, j \in 1..Len(cols) : i < j => cols[i] < cols[j]
                    /\ DOMAIN tbl = CRows \X CCols
                    /\ \A g \in CRows, d \in CCols : tbl[<<g, d>>] = CCell(g, d)
RefinesOrder ==            \* rows ordered by decreasing mean response
  Stage(pc) >= 3 => COrdered(rowOrder)
RefinesShares ==           \* each geo's mean divided by the sum of means; they add up to one
  Stage(pc) >= 4 => /\ \A g \in CRows : RatEq(share[g], CShare(g))
                    /\ LET s == [i \in 1..Len(rowOrder) |-> share[rowOrder[i]]]
                       IN RatEq(RatSumSeq(s, 0..(Len(s) - 1)), <<1, 1>>)
RefinesReconcile ==        \* absent rows dropped when excludable, ValueError otherwise; assignable
  /\ (pc = "error_construct" => ~CAccept)
  /\ (Stage(pc) >= 5 /\ pc # "error_construct" =>
        /\ CAccept
        /\ DOMAIN recon = CKept
        /\ \A g \in CKept : Triples[recon[g]] = CTriple(g)
        /\ assignable = CAssignable
        /\ assignable \subseteq CRows)
RefinesIndex ==            \* the setter accepts exactly the orders over assignable geos
  /\ (pc = "error_index" => ~CIndexOK(order))
  /\ (pc \in {"indexed", "done"} => /\ CIndexOK(order)
                                    /\ gassign = CAssignments(order)
                                    /\ gassign.x_fixed = {})
RefinesAggregates ==       \* aggregates over any index set = sums of the corresponding rows and shares
  pc = "done" =>
    /\ DOMAIN agg = (SUBSET CPositions(order)) \ {{}}
    /\ \A S \in DOMAIN agg : /\ agg[S].ts = CAggTS(order, S)
                             /\ RatEq(agg[S].share, CAggShare(order, S))
\* consequences worth having: the seven classes partition the positions; a full index aggregates to the
\* column totals and to share one
ClassesPartition ==
  pc = "done" =>
    LET a == gassign
        seven == <<a.c_fixed, a.t_fixed, a.x_fixed, a.ct, a.cx, a.ctx, a.tx>>
    IN /\ UNION Range(seven) = CPositions(order)
       /\ \A i, j \in 1..7 : i # j => seven[i] \cap seven[j] = {}
FullIndexIsTotal ==
  (pc = "done" /\ Range(order) = CRows /\ Len(order) > 0) =>
    /\ RatEq(agg[CPositions(order)].share, <<1, 1>>)
    /\ \A k \in 1..Len(cols) : agg[CPositions(order)].ts[k] =
                                 SumFn(CRows, [g \in CRows |-> CCell(g, cols[k])])

Terminates == <>(pc \in {"done", "error_construct", "error_index"})

\* ---------------------------------------------------------------- emission (contract side only)
Canonical(s) == \A i, j \in 1..Len(s) : (i < j /\ CTotal(s[i]) = CTotal(s[j])) => s[i] < s[j]
SubsetOfMask(n, m) == {p \in 0..(n - 1) : (m \div Pow2(p)) % 2 = 1}
SetSeq(S) == SetToSeq(S)
CaseRecord ==
  LET rs == SetToSeq(CRows)
      cs == CColSeq
      ks == SetToSeq(CKept)
      hasOrder == pc \in {"done", "error_index"}
      o == IF hasOrder THEN order ELSE <<>>
      idxOK == pc = "done"
      a == CAssignments(o)
      n == Len(o)
  IN [ng |-> NG, nd |-> ND,
      cells |-> [g \in Geos |-> [d \in Dates |-> cells[<<g, d>>]]],
      dtype |-> dtype,
      sgn |-> Sgn,
      elig_given |-> elig.given,
      elig_rows |-> [g \in AllGeos |-> IF elig.given /\ elig.row[g] # 0 THEN Triples[elig.row[g]] ELSE <<>>],
      construct_ok |-> (pc # "error_construct"),
      rows |-> rs,
      cols |-> cs,
      keep |-> Keep,
      preidx |-> (PreIdx /\ CAssignable # {}),
      win |-> CWinSeq,
      table |-> [i \in 1..Len(rs) |-> [k \in 1..Len(cs) |-> CCell(rs[i], cs[k])]],
      totals |-> [i \in 1..Len(rs) |-> CTotal(rs[i])],
      grand |-> CGrand,
      absent |-> SetToSeq(CAbsent),
      kept |-> ks,
      kept_rows |-> [i \in 1..Len(ks) |-> CTriple(ks[i])],
      assignable |-> SetToSeq(CAssignable),
      has_order |-> hasOrder,
      order |-> o,
      index_ok |-> idxOK,
      classes |-> IF idxOK
                  THEN [all |-> SetSeq(a.all), c |-> SetSeq(a.c), t |-> SetSeq(a.t), x |-> SetSeq(a.x),
                        c_fixed |-> SetSeq(a.c_fixed), t_fixed |-> SetSeq(a.t_fixed),
                        x_fixed |-> SetSeq(a.x_fixed), ct |-> SetSeq(a.ct), cx |-> SetSeq(a.cx),
                        ctx |-> SetSeq(a.ctx), tx |-> SetSeq(a.tx)]
                  ELSE [all |-> <<>>],
      aggs |-> IF idxOK
               THEN [m \in 1..(Pow2(n) - 1) |->
                       LET S == SubsetOfMask(n, m)
                       IN [s |-> SetToSeq(S), ts |-> CAggTS(o, S), share |-> CAggShare(o, S)]]
               ELSE <<>>]
Emit == (pc \in {"done", "error_construct", "error_index"} /\ Canonical(rowOrder)) =>
          PrintT(ToJson(CaseRecord))
=============================================================================
