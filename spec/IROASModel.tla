----------------------------- MODULE IROASModel -----------------------------
(***************************************************************************)
(* The iROAS summary of TBRiROAS (property C07) on top of the exact        *)
(* response posterior of TBRModel.                                         *)
(*                                                                         *)
(*   tbr_iroas.TBRiROAS.fit / _is_fixed_cost_scenario / summary            *)
(*                                                                         *)
(* A case is a case of TBRModel (per-date response totals x = control,     *)
(* y = treatment, shape (n_pre, n_test, n_cool)) plus per-date integer     *)
(* COST totals cx (control), cy (treatment), all >= 0.  The cost series    *)
(* are one of a few patterns that are functions of the response data       *)
(* (CostOf), so that the universe is the universe of TBRModel times the    *)
(* number of patterns:                                                     *)
(*   1  fixed    treatment spends 1..3 on every test and cooldown day      *)
(*   2  fixed    treatment spends 0..3 in the test period only, the control*)
(*               group spends in the cooldown period (not part of the      *)
(*               scenario test: pre-period, and control test period);      *)
(*               a zero incremental cost is "degenerate": no report        *)
(*   3  variable the cost series are the response series with the roles    *)
(*               of the groups exchanged (cx = y, cy = x): the cost model  *)
(*               is non-degenerate exactly when the response model is      *)
(*               (K_cost = K_y > 0 and D_cost = D > 0)                     *)
(*   4  variable of the terms of the scenario test only the control        *)
(*               group's test period carries cost                          *)
(*   5  variable ... only the control group's pre-period carries cost      *)
(*   6  variable ... only the treatment group's pre-period carries cost    *)
(* Patterns 4..6 exercise each term of the scenario test alone; their cost *)
(* model is degenerate (no residual variance), so only the scenario label  *)
(* is demanded of them ("labelonly").                                      *)
(*                                                                         *)
(* summary() is modelled implementation-shaped after the response          *)
(* pipeline of TBRModel (Fit, Select, Day ...; both settings of            *)
(* use_cooldown):                                                          *)
(*   ScenarioTest     _is_fixed_cost_scenario: sum of the pre-period cost  *)
(*                    of both groups + control test-period cost; the code  *)
(*                    asks float_order(total) < -10, which on integers is  *)
(*                    total = 0 (float_order(0) = -inf, float_order(t) >= 0*)
(*                    for t >= 1)                                          *)
(*   FixedBranch      cost = sum(tbr_cost.causal_effect(periods));         *)
(*                    report = tbr_response.summary(rescale = 1 / cost)    *)
(*                    + the incremental_* columns                          *)
(*   VariableBranch   report = simulate(random_state): an uninterpreted    *)
(*                    term in (data, arguments, random_state)              *)
(* Quantiles are abstract: a bound is an affine form  a + q b s_T  in the  *)
(* unknown standard-t quantile q (q < 0 for `lower`, q > 0 for `upper`)    *)
(* and the posterior scale s_T = sqrt(var_T) of the response effect;       *)
(* a, b are rationals.  Everything the property says about the fixed-cost  *)
(* report is then exact rational algebra, checked as invariants.           *)
(***************************************************************************)
EXTENDS TBRModel

CONSTANTS CostVariants,    \* subset of 1..6
          ScalePairs       \* set of codes 10 a + b: cost times a, response times b (a, b in {1, 2, 4})

VARIABLES cv,              \* cost pattern of the case (chosen in IInit, never changes)
          cx, cy,          \* cost totals per date: control, treatment
          ipc,             \* "response" | "fixed" | "variable" | "report" | "labelonly" | "degenerate"
          scen,            \* "" until the scenario test has run, then "fixed" | "variable"
          cost,            \* fixed-cost branch: the incremental cost
          rep              \* the report
ivars == <<cv, cx, cy, ipc, scen, cost, rep>>
allvars == <<vars, ivars>>

\* ---------------------------------------------------------------- cost patterns
LabAt(i) == BaseLab[i]
CostOf(v, xx, yy) ==
  CASE v = 1 -> [cx |-> [i \in 1..L |-> 0],
                 cy |-> [i \in 1..L |-> IF LabAt(i) = "pre" THEN 0 ELSE 1 + ((xx[i] + (2 * yy[i]) + i) % 3)]]
    [] v = 2 -> [cx |-> [i \in 1..L |-> IF LabAt(i) = "cool" THEN 1 + (yy[i] % 2) ELSE 0],
                 cy |-> [i \in 1..L |-> IF LabAt(i) = "test" THEN (xx[i] + i) % 4 ELSE 0]]
    [] v = 3 -> [cx |-> yy, cy |-> xx]
    [] v = 4 -> [cx |-> [i \in 1..L |-> IF LabAt(i) = "test" THEN 1 + (xx[i] % 2) ELSE 0],
                 cy |-> [i \in 1..L |-> IF LabAt(i) = "pre" THEN 0 ELSE 1 + (yy[i] % 2)]]
    [] v = 5 -> [cx |-> [i \in 1..L |-> IF i = 1 THEN 1 + (xx[1] % 2) ELSE 0],
                 cy |-> [i \in 1..L |-> IF LabAt(i) = "pre" THEN 0 ELSE 2]]
    [] v = 6 -> [cx |-> [i \in 1..L |-> 0],
                 cy |-> [i \in 1..L |-> IF i = N THEN 1 ELSE IF LabAt(i) = "pre" THEN 0 ELSE 2]]
FullVariants == {1, 2, 3}        \* the whole report is demanded
LabelOnly == {4, 5, 6}

\* ---------------------------------------------------------------- closed form for any series (TBRModel!Contract is for x, y)
ContractOf(xx, yy) ==
  LET S   == SumF(xx, 1, N)
      Q   == SumF(Prod2(xx, xx), 1, N)
      Sy  == SumF(yy, 1, N)
      Qy  == SumF(Prod2(yy, yy), 1, N)
      Sxy == SumF(Prod2(xx, yy), 1, N)
      K   == N * Q - S * S
      P   == N * Sxy - S * Sy
      A   == Sy * K - P * S
      nk  == N * K
      Cx  == [k \in 1..T |-> SumF(xx, N + 1, N + k)]
      Cy  == [k \in 1..T |-> SumF(yy, N + 1, N + k)]
      E   == [k \in 1..T |-> N * Cx[k] - k * S]
  IN [K |-> K, P |-> P, A |-> A, D |-> (N * Qy - Sy * Sy) * K - P * P, nk |-> nk,
      loc |-> [k \in 1..T |-> nk * Cy[k] - k * A - N * P * Cx[k]],
      V |-> [k \in 1..T |-> k * N * K + k * k * K + E[k] * E[k]]]

\* ---------------------------------------------------------------- the declarative contract
\* "the scenario label is fixed exactly when pre-period and control test-period costs are zero"
CostsAreZero(ccx, ccy) ==
  /\ \A i \in 1..L : LabAt(i) = "pre" => ccx[i] = 0 /\ ccy[i] = 0
  /\ \A i \in 1..L : LabAt(i) = "test" => ccx[i] = 0
ScenarioOf(ccx, ccy) == IF CostsAreZero(ccx, ccy) THEN "fixed" ELSE "variable"

\* the treatment group's cost over the analysed periods (the counterfactual cost is zero in the fixed scenario)
IncrCost(ccy, u) == SumF(ccy, N + 1, N + AnalysedDays(u))

\* affine forms a + q b s_T
Aff(a, b) == [a |-> a, b |-> b]
AffScale(v, r) == [a |-> RatMul(v.a, r), b |-> RatMul(v.b, r)]
One == <<1, 1>>
Zero == <<0, 1>>

\* the response summary of the last analysed day, TBR.summary(report='last'), before rescaling:
\*   estimate = loc_T (median), lower = loc_T + q(alpha) s_T, upper = loc_T + q(1 - alpha) s_T  (tails = 2;
\*   tails = 1: upper = +inf), scale = s_T with s_T^2 = D V_T / ((n-2) n^2 K^2)
RespSummary(cc, u) ==
  LET k == AnalysedDays(u)
      m == Rat(cc.loc[k], cc.nk)
  IN [est |-> Aff(m, Zero), lower |-> Aff(m, One), upper |-> Aff(m, One),
      varnum |-> <<cc.D, cc.V[k]>>, varden |-> <<N - 2, N, N, cc.K, cc.K>>]

\* the fixed-cost report as a function of the data: every iROAS figure is the response figure over the cost,
\* the incremental-response bounds are the iROAS bounds times the cost
FixedReport(xx, yy, ccy, u) ==
  LET cc == ContractOf(xx, yy)
      r  == RespSummary(cc, u)
      ct == IncrCost(ccy, u)
      inv == Rat(1, ct)
  IN [scenario |-> "fixed",
      est |-> AffScale(r.est, inv), lower |-> AffScale(r.lower, inv), upper |-> AffScale(r.upper, inv),
      scalenum |-> r.varnum, scaleden |-> r.varden \o <<ct, ct>>,       \* (reported scale)^2 = var_T / cost^2
      incr_cost |-> ct,
      incr_resp |-> r.est.a,
      incr_resp_lower |-> r.lower, incr_resp_upper |-> r.upper]

\* the variable-cost report is an uninterpreted term: a function of the data, the arguments and random_state
\* and of nothing else (no object identity, no call count, no process-wide generator state)
SimReport(xx, yy, ccx, ccy, u) == [scenario |-> "variable", sim |-> <<xx, yy, ccx, ccy, u>>]
NoReport == [scenario |-> ""]

\* ---------------------------------------------------------------- implementation-shaped pipeline
IInit ==
  /\ shape \in Shapes
  /\ x \in [1..L -> 0..MV]
  /\ cK > 0
  /\ \E yp \in [1..N -> 0..MV] :
       IF YF = 1 THEN \E yt \in [1..T -> 0..MV] : y = yp \o yt
                 ELSE y = yp \o [i \in 1..T |-> DerivedY(yp, N + i)]
  /\ cD > 0
  /\ (EmitOnly => Sampled)
  /\ c = Contract
  \* the analysis data of the response model are the totals (layouts are the business of TBRModel!Aggregate)
  /\ pc = "fit" /\ tlab = BaseLab /\ tx = x /\ ty = y /\ uc = TRUE /\ ax = <<>> /\ ay = <<>>
  /\ fit = [n |-> 0, S |-> 0, Q |-> 0, Sy |-> 0, Qy |-> 0, Sxy |-> 0]
  /\ t = 0 /\ cumx = 0 /\ cumy = 0 /\ locs = <<>> /\ vs = <<>>
  /\ dfit = [est |-> <<0, 1>>, sf |-> <<0, 1>>]
  /\ cv \in CostVariants
  /\ cx = CostOf(cv, x, y).cx /\ cy = CostOf(cv, x, y).cy
  /\ ipc = "response" /\ scen = "" /\ cost = 0 /\ rep = NoReport

\* _is_fixed_cost_scenario: pre_costs = cost of ALL groups in the pre-period, test_costs_cntrl = control cost in the
\* test period; tot_costs = sum(pre_costs) + sum(test_costs_cntrl); return float_order(tot_costs) < -10.
TotCosts == SumF(cx, 1, N) + SumF(cy, 1, N) + SumF(cx, N + 1, N + NT)
ScenarioTest ==
  /\ pc = "done" /\ ipc = "response"
  /\ scen' = IF TotCosts = 0 THEN "fixed" ELSE "variable"
  /\ ipc' = IF cv \in LabelOnly THEN "labelonly" ELSE scen'
  /\ UNCHANGED <<vars, cv, cx, cy, cost, rep>>

\* The cost model of the fixed scenario: OLS of an all-zero treatment series on (1, all-zero control series) -
\* statsmodels solves by pseudo-inverse, the minimum-norm solution is a = b = 0, so the counterfactual cost is
\* zero on every date, whatever the control group spends in the cooldown period.
CostEffect(i) == cy[i] - 0
FixedBranch ==
  /\ ipc = "fixed"
  /\ LET ct == SumF([i \in 1..L |-> CostEffect(i)], N + 1, N + t)       \* np.sum(tbr_cost.causal_effect(periods))
     IN /\ cost' = ct
        /\ IF ct = 0 THEN /\ ipc' = "degenerate"                          \* rescale = 1 / 0: outside the property
                          /\ rep' = NoReport
           ELSE LET inv == Rat(1, ct)
                    m   == Rat(locs[t], fit.n * fK)                       \* tbr_response posterior of the last day
                    rs  == [est |-> Aff(RatMul(m, inv), Zero),            \* summary(rescale = 1 / cost): loc and scale
                            lower |-> Aff(RatMul(m, inv), inv),           \* are both multiplied by rescale
                            upper |-> Aff(RatMul(m, inv), inv)]
                IN /\ rep' = [scenario |-> "fixed",
                              est |-> rs.est, lower |-> rs.lower, upper |-> rs.upper,
                              scalenum |-> <<fD, fit.n * vs[t]>>,
                              scaleden |-> <<fit.n - 2, fit.n, fit.n, fK, fK, ct, ct>>,
                              incr_cost |-> ct,                                   \* report['incremental_cost'] = cost
                              incr_resp |-> m,                                    \* np.sum(causal_effect)
                              incr_resp_lower |-> AffScale(rs.lower, <<ct, 1>>),  \* report['lower'] * cost
                              incr_resp_upper |-> AffScale(rs.upper, <<ct, 1>>)]
                   /\ ipc' = "report"
  /\ UNCHANGED <<vars, cv, cx, cy, scen>>

VariableBranch ==
  /\ ipc = "variable"
  /\ rep' = SimReport(x, y, cx, cy, uc)
  /\ ipc' = "report"
  /\ UNCHANGED <<vars, cv, cx, cy, scen, cost>>

INext == \/ ((Fit \/ Select \/ Day) /\ UNCHANGED ivars)
         \/ ScenarioTest \/ FixedBranch \/ VariableBranch
ISpec == IInit /\ [][INext]_allvars /\ WF_allvars(INext)

\* ---------------------------------------------------------------- properties
ITypeOK ==
  /\ cv \in 1..6
  /\ ipc \in {"response", "fixed", "variable", "report", "labelonly", "degenerate"}
  /\ scen \in {"", "fixed", "variable"}
  /\ \A i \in 1..L : cx[i] >= 0 /\ cy[i] >= 0
  /\ cost >= 0
  /\ LET cc == ContractOf(x, y)        \* the parametrised closed form is TBRModel's on the case itself
     IN cc.K = c.K /\ cc.P = c.P /\ cc.A = c.A /\ cc.D = c.D /\ cc.nk = c.nk /\ cc.loc = c.loc /\ cc.V = c.V

\* the order-of-magnitude test on the sum decides "all those costs are zero" (costs are non-negative)
ScenarioIsContract ==
  scen # "" => /\ scen = ScenarioOf(cx, cy)
               /\ (cv \in {1, 2} <=> scen = "fixed")

\* the branch computes the declarative report
ReportRefinesContract ==
  ipc = "report" =>
    IF scen = "fixed" THEN /\ rep = FixedReport(x, y, cy, uc)
                           /\ cost = IncrCost(cy, uc) /\ cost > 0
    ELSE rep = SimReport(x, y, cx, cy, uc)

\* the fixed-cost identities of the property, on the report alone
FixedIdentities ==
  (ipc = "report" /\ scen = "fixed") =>
    LET k == AnalysedDays(uc)
        resp == RespSummary(c, uc)
        ct == <<rep.incr_cost, 1>>
    IN /\ AffScale(rep.est, ct) = resp.est             \* iROAS estimate = response estimate / cost
       /\ AffScale(rep.lower, ct) = resp.lower         \* iROAS bounds = response bounds / cost
       /\ AffScale(rep.upper, ct) = resp.upper
       /\ rep.incr_resp_lower = AffScale(rep.lower, ct)  \* incremental-response bounds = iROAS bounds times cost
       /\ rep.incr_resp_upper = AffScale(rep.upper, ct)
       /\ rep.incr_resp_lower = resp.lower /\ rep.incr_resp_upper = resp.upper
       /\ rep.incr_resp = resp.est.a /\ RatEq(rep.incr_resp, <<c.loc[k], c.nk>>)
       /\ RatEq(RatMul(rep.est.a, ct), rep.incr_resp)
       /\ rep.scalenum = <<c.D, c.V[k]>>

\* lower <= estimate <= upper: with q_lower < 0 < q_upper and s_T > 0 this is "the coefficient of q s_T is positive",
\* which holds because the incremental cost is positive (it would flip for a negative cost)
FixedOrdered ==
  (ipc = "report" /\ scen = "fixed") =>
    /\ rep.lower.a = rep.est.a /\ rep.upper.a = rep.est.a /\ rep.est.b = Zero
    /\ rep.lower.b[1] > 0 /\ rep.upper.b[1] > 0

\* The scaling law.  Cost times a, response times b (both groups, every date):
\*   K -> b^2 K, D -> b^4 D, V_k -> b^2 V_k, loc_k n K -> b^3 loc_k n K, n K -> b^2 n K, cost -> a cost, hence
\*   loc_T -> b loc_T, var_T = D V_T / ((n-2) n^2 K^2) -> b^2 var_T (s_T -> b s_T), and in the report
\*   estimate -> (b/a) estimate; a bound  e + q f s_T -> (b/a) e + q (f/a) (b s_T);  scale -> (b/a) scale;
\*   incremental cost -> a cost; incremental response and its bounds -> b times;
\*   (threshold - estimate) / scale is unchanged when the threshold is multiplied by b/a, so the probability
\*   1 - T_df((threshold - estimate) / scale) is unchanged; the scenario label is unchanged.
Times(s, m) == [i \in 1..Len(s) |-> m * s[i]]
ThresholdsOf(r) == {Zero, r.est.a, RatMul(<<3, 4>>, r.est.a), <<1, 2>>}
ScalingLawFor(a, b) ==
  LET c2 == ContractOf(Times(x, b), Times(y, b))
      r2 == FixedReport(Times(x, b), Times(y, b), Times(cy, a), uc)
      k  == AnalysedDays(uc)
      ba == Rat(b, a)
  IN /\ ScenarioOf(Times(cx, a), Times(cy, a)) = scen
     /\ c2.K = b * b * c.K /\ c2.D = b * b * b * b * c.D /\ c2.V[k] = b * b * c.V[k]
     /\ c2.loc[k] = b * b * b * c.loc[k] /\ c2.nk = b * b * c.nk
     /\ r2.est.a = RatMul(ba, rep.est.a)
     /\ r2.lower.a = RatMul(ba, rep.lower.a) /\ r2.lower.b = RatMul(Rat(1, a), rep.lower.b)
     /\ r2.upper.a = RatMul(ba, rep.upper.a) /\ r2.upper.b = RatMul(Rat(1, a), rep.upper.b)
     /\ r2.scalenum = <<b * b * b * b * rep.scalenum[1], b * b * rep.scalenum[2]>>
     /\ r2.scaleden = <<N - 2, N, N, b * b * c.K, b * b * c.K, a * rep.incr_cost, a * rep.incr_cost>>
     /\ r2.incr_cost = a * rep.incr_cost
     /\ r2.incr_resp = RatMul(<<b, 1>>, rep.incr_resp)
     /\ r2.incr_resp_lower = [a |-> RatMul(<<b, 1>>, rep.incr_resp_lower.a), b |-> rep.incr_resp_lower.b]
     /\ \A th \in ThresholdsOf(rep) :      \* numerator of the standardised threshold; the scale goes with b/a too
          RatSub(RatMul(ba, th), r2.est.a) = RatMul(ba, RatSub(th, rep.est.a))
ScalingLaw ==
  (ipc = "report" /\ scen = "fixed") =>
    \A code \in ScalePairs : ScalingLawFor(code \div 10, code % 10)
\* the variable-cost label is stable under scaling too (the figures are Monte-Carlo: decided on the real code)
ScalingKeepsLabel ==
  scen # "" => \A code \in ScalePairs : ScenarioOf(Times(cx, code \div 10), Times(cy, code \div 10)) = scen

ITerminates == <>(ipc \in {"report", "labelonly", "degenerate"})

\* ---------------------------------------------------------------- emission
IEmit ==
  (ipc \in {"report", "labelonly"} /\ Sampled) =>
    PrintT(ToJson([
      shape |-> shape, npre |-> N, ntest |-> NT, ncool |-> NC, x |-> x, y |-> y,
      lab |-> [i \in 1..L |-> Lab2Int(BaseLab[i])],
      df |-> c.df, K |-> c.K, P |-> c.P, A |-> c.A, nk |-> c.nk, D |-> c.D,
      resnum |-> [i \in 1..N |-> c.res[i]],
      locnum |-> c.loc, V |-> c.V, varden |-> <<c.df, N, N, c.K, c.K>>,
      mono |-> MonotoneV(c.V), strict |-> StrictV(c.V),
      dest |-> <<c.loc[T], c.nk>>, dsf |-> <<c.V[T], c.nk>>, sig2 |-> <<c.D, c.df * c.nk>>,
      cv |-> cv, cx |-> cx, cy |-> cy, uc |-> uc, ndays |-> t,
      scenario |-> scen, full |-> (ipc = "report"),
      cost |-> cost,
      est |-> IF ipc = "report" /\ scen = "fixed" THEN rep.est.a ELSE Zero,
      bcoef |-> IF ipc = "report" /\ scen = "fixed" THEN rep.lower.b ELSE Zero,
      incr_resp |-> IF ipc = "report" /\ scen = "fixed" THEN rep.incr_resp ELSE Zero,
      scalenum |-> IF ipc = "report" /\ scen = "fixed" THEN rep.scalenum ELSE <<0, 0>>,
      scaleden |-> IF ipc = "report" /\ scen = "fixed" THEN rep.scaleden ELSE <<1>>,
      totcosts |-> TotCosts,
      hash |-> Hash]))
=============================================================================
