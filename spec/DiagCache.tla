----------------------------- MODULE DiagCache -----------------------------
(***************************************************************************)
(* TBRMMDiagnostics as a cache state machine (property C08).               *)
(*                                                                         *)
(* Versions, not values: a slot remembers the <<y, x>> version pair it was *)
(* computed from.  yv \in 1..NY is the current treatment series, xv \in    *)
(* 0..NX the current control series (0 = none).  The seven memoised        *)
(* quantities are the private fields of the class:                         *)
(*   corr (_corr)  ri (_required_impact)  fit (_pretestfit)  aa (_aatest)  *)
(*   bb (_bbtest)  dw (_dwtest)  ok (_tests_ok)                            *)
(* Actions follow the code:                                                *)
(*   SetX(v)  tbrmmdiagnostics.py x setter: stores x, empties the slots    *)
(*   SetY(v)  y setter: stores y, then runs the x setter with None         *)
(*   Read(q)  the lazily cached properties; each fills the slots its       *)
(*            property chain fills (required_impact fills corr; bbtest,    *)
(*            dwtest and tbrfit fill pretestfit; tests_ok short-circuits)  *)
(* Fixes = {} is the code as it was before commit 7855d2a (the x setter    *)
(* forgot _tests_ok); Fixes = {"D1"} is the current code.                  *)
(*                                                                         *)
(* hist records the behaviour for the replayer: <<action, argument,        *)
(* version served>>.                                                       *)
(***************************************************************************)
EXTENDS Integers, Sequences, FiniteSets, TLC, Json

CONSTANTS NY, NX, Fixes, MaxLen

Slots == {"corr", "ri", "fit", "aa", "bb", "dw", "ok"}
Reads == Slots \cup {"corr_test", "tbrfit"}
Empty == <<0, 0>>
NoneV == <<-1, -1>>               \* "returned None"

VARIABLES yv, xv, slot, last, hist
vars == <<yv, xv, slot, last, hist>>
cur == <<yv, xv>>

Init == /\ yv \in 1..NY /\ xv = 0 /\ slot = [s \in Slots |-> Empty]
        /\ last = <<"none", NoneV>>
        /\ hist = <<[a |-> "init", arg |-> ToString(yv), y |-> 0, x |-> 0]>>

ClearedByX == IF "D1" \in Fixes THEN Slots ELSE Slots \ {"ok"}

Log(a, arg, served) == hist' = Append(hist, [a |-> a, arg |-> ToString(arg), y |-> served[1], x |-> served[2]])

SetX(v) == /\ xv' = v /\ UNCHANGED yv
           /\ slot' = [s \in Slots |-> IF s \in ClearedByX THEN Empty ELSE slot[s]]
           /\ last' = <<"none", NoneV>>
           /\ Log("setx", v, Empty)
SetY(v) == /\ yv' = v /\ xv' = 0
           /\ slot' = [s \in Slots |-> IF s \in ClearedByX THEN Empty ELSE slot[s]]
           /\ last' = <<"none", NoneV>>
           /\ Log("sety", v, Empty)

\* fill those of the slots S that are still empty with the current version
Fill(S) == [s \in Slots |-> IF s \in S /\ slot[s] = Empty THEN cur ELSE slot[s]]
Ret(q, f, served) == slot' = f /\ last' = <<q, served>> /\ Log("read", q, served)

Read(q) ==
  /\ UNCHANGED <<yv, xv>>
  /\ CASE q \in {"corr", "corr_test"} ->
            IF xv = 0 THEN Ret(q, slot, NoneV) ELSE Ret(q, Fill({"corr"}), Fill({"corr"})["corr"])
       [] q = "ri" ->
            IF slot["ri"] # Empty THEN Ret(q, slot, slot["ri"])
            ELSE IF xv = 0 THEN Ret(q, slot, NoneV)
            ELSE Ret(q, Fill({"corr", "ri"}), cur)
       [] q \in {"fit", "tbrfit"} ->
            IF xv = 0 THEN Ret(q, slot, NoneV) ELSE Ret(q, Fill({"fit"}), Fill({"fit"})["fit"])
       [] q = "bb" ->
            IF xv = 0 THEN Ret(q, slot, NoneV) ELSE Ret(q, Fill({"fit", "bb"}), Fill({"fit", "bb"})["bb"])
       [] q = "dw" ->
            IF slot["dw"] # Empty THEN Ret(q, slot, slot["dw"])
            ELSE IF xv = 0 THEN Ret(q, slot, NoneV)
            ELSE Ret(q, Fill({"fit", "dw"}), cur)
       [] q = "aa" ->
            IF slot["aa"] # Empty THEN Ret(q, slot, slot["aa"])
            ELSE IF xv = 0 THEN Ret(q, slot, NoneV)
            ELSE Ret(q, Fill({"aa"}), cur)
       [] q = "ok" ->
            IF slot["ok"] # Empty THEN Ret(q, slot, slot["ok"])
            ELSE IF xv = 0 THEN Ret(q, slot, NoneV)
            ELSE \* short-circuit `and`: some prefix of (corr, bb, dw, aa) is evaluated
                 \E S \in {{"corr"}, {"corr", "fit", "bb"}, {"corr", "fit", "bb", "dw"},
                           {"corr", "fit", "bb", "dw", "aa"}} : Ret(q, Fill(S \cup {"ok"}), cur)

Next == /\ Len(hist) < MaxLen
        /\ \/ \E v \in 0..NX : SetX(v)
           \/ \E v \in 1..NY : SetY(v)
           \/ \E q \in Reads : Read(q)
Spec == Init /\ [][Next]_vars

\* ------------------------------------------------------------------ C08
NoStale == \A s \in Slots : slot[s] # Empty => slot[s] = cur
ServedFresh == last[2] \in {NoneV, cur}
NoneIffNoX == (last[1] # "none") => ((last[2] = NoneV) <=> (xv = 0))
\* the state graph without the history (finite without MaxLen): used for the exhaustive design-level run
View == <<yv, xv, slot, last>>
Emit == (Len(hist) = MaxLen) => PrintT(ToJson(hist))
=============================================================================
