------------------------------ MODULE MMPresent ------------------------------
(***************************************************************************)
(* C12: search results are invariant to how the input is presented.        *)
(*                                                                         *)
(* The driver runs both searches of the real code on several presentations *)
(* of one abstract instance - rows shuffled, all dates shifted, geo IDs    *)
(* supplied as integers or strings, geos renamed through a permutation     *)
(* (eligibility table renamed alike), responses and budget range scaled by *)
(* a power of two - and records each result projected back to the abstract *)
(* instance: geo numbers, the four test verdicts, the rounded correlation, *)
(* and value-class ids for the impact-based quantities after undoing the   *)
(* scale (equal ids <=> equal within 1e-9).  The contract is the `memo`    *)
(* invariant: the first presentation's abstract answer is THE answer of    *)
(* the call; every other presentation must give exactly it.                *)
(* One verdict line per abstract instance naming the failing clauses.      *)
(***************************************************************************)
EXTENDS Integers, Sequences, FiniteSets, TLC, Json, IOUtils, TLCExt, SequencesExt

Data == JsonDeserialize(IOEnv.TRACE_FILE)
Groups == Data.groups
NG == Len(Groups)

VARIABLES gid
vars == <<gid>>

Pairs(r) == [i \in 1..Len(r.designs) |-> <<r.designs[i].t, r.designs[i].c>>]
Verdicts(r) == [i \in 1..Len(r.designs) |-> r.designs[i].tests]
Corrs(r) == [i \in 1..Len(r.designs) |-> r.designs[i].corr100]
Impacts(r) == [i \in 1..Len(r.designs) |-> r.designs[i].impactId]
Lasts(r) == [i \in 1..Len(r.designs) |-> r.designs[i].lastId]
AsSet(s) == {s[i] : i \in 1..Len(s)}

\* clauses comparing one presentation's result r with the memoised first answer m
Diff(m, r, who) ==
  (IF r.status # m.status THEN {who \o "SameOutcome"} ELSE {})
  \cup (IF r.status = m.status /\ AsSet(Pairs(r)) # AsSet(Pairs(m)) THEN {who \o "SameDesigns"} ELSE {})
  \cup (IF r.status = m.status /\ AsSet(Pairs(r)) = AsSet(Pairs(m)) /\ Pairs(r) # Pairs(m) THEN {who \o "SameOrder"} ELSE {})
  \cup (IF Pairs(r) = Pairs(m) /\ Verdicts(r) # Verdicts(m) THEN {who \o "SameTestOutcomes"} ELSE {})
  \cup (IF Pairs(r) = Pairs(m) /\ Corrs(r) # Corrs(m) THEN {who \o "SameCorrelations"} ELSE {})
  \cup (IF Pairs(r) = Pairs(m) /\ Impacts(r) # Impacts(m) THEN {who \o "ImpactScalesWithResponse"} ELSE {})
  \cup (IF Pairs(r) = Pairs(m) /\ Lasts(r) # Lasts(m) THEN {who \o "LastScoreEntryScalesInversely"} ELSE {})

Judge(G) ==
  LET memo == G.variants[1]
      fails == UNION {Diff(memo.exh, G.variants[v].exh, "Exhaustive") \cup Diff(memo.greedy, G.variants[v].greedy, "Greedy")
                      : v \in 2..Len(G.variants)}
      culprits == {v \in 2..Len(G.variants) :
                     Diff(memo.exh, G.variants[v].exh, "Exhaustive") \cup Diff(memo.greedy, G.variants[v].greedy, "Greedy") # {}}
  IN [id |-> G.id, fails |-> SetToSeq(fails), variants |-> SetToSeq(culprits), compared |-> Len(G.variants) - 1]

Init == gid = 1
Next == /\ gid <= NG
        /\ PrintT(ToJson(Judge(Groups[gid])))
        /\ gid' = gid + 1
Spec == Init /\ [][Next]_vars
=============================================================================
