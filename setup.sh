#!/bin/sh
# Offline setup: verifies the toolchain and parses every TLA+ module with SANY. Fetches nothing.
HERE="$(cd "$(dirname "$0")" && pwd)"
cd "$HERE" || exit 2
command -v java >/dev/null || { echo "java missing"; exit 2; }
[ -f /opt/veriftools/tla/tla2tools.jar ] || { echo "tla2tools.jar missing"; exit 2; }
[ -x /venv/bin/python ] || { echo "/venv/bin/python missing"; exit 2; }
mkdir -p run evidence replays
rm -rf run/sany && mkdir -p run/sany && cp spec/*.tla run/sany/
fail=0
for f in run/sany/*.tla; do
  # HeapDictInd.tla is an Apalache module (EXTENDS Apalache, type annotations): parsed and type-checked by apalache-mc below
  [ "$(basename "$f")" = "HeapDictInd.tla" ] && continue
  out=$(cd run/sany && java -cp /opt/veriftools/tla/tla2tools.jar:/opt/veriftools/tla/CommunityModules-deps.jar tla2sany.SANY "$(basename "$f")" 2>&1)
  if echo "$out" | grep -q -E "Parse Error|Semantic errors|Fatal errors|\*\*\* Errors|Could not"; then
    echo "SANY FAILED: $f"; echo "$out" | tail -20; fail=1
  fi
done
if command -v apalache-mc >/dev/null; then
  out=$(cd run/sany && apalache-mc typecheck --out-dir=/verif/run/sany/apa HeapDictInd.tla 2>&1)
  echo "$out" | grep -q "EXITCODE: OK" || { echo "apalache typecheck FAILED: HeapDictInd.tla"; echo "$out" | tail -10; fail=1; }
fi
rm -rf run/sany
/venv/bin/python -c "import sys; sys.path.insert(0,'/repo'); import matched_markets.methodology.tbrmatchedmarkets, hypothesis, jsonschema" 2>&1 | grep -v conda
[ $fail -eq 0 ] && echo "setup ok" || exit 2
